package kf

import (
	"testing"

	"github.com/EliCDavis/polyform/formats/gltf"
	"github.com/EliCDavis/polyform/modeling"
	"github.com/EliCDavis/vector/vector3"
)

// C06 known finding: buffer-view offsets are not kept on 4-byte boundaries.  An odd number of 16-bit indices
// (one triangle = 6 bytes) leaves the byte counter at 2 mod 4, so the FLOAT accessor of the next mesh starts
// at a byte offset that is not a multiple of its component size (glTF 2.0, 3.6.2.4 "Data Alignment").
func TestFloatAccessorAfterOddIndexCountIsMisaligned(t *testing.T) {
	tri := func(z float64) *modeling.Mesh {
		m := modeling.NewTriangleMesh([]int{0, 1, 2}).
			SetFloat3Attribute(modeling.PositionAttribute, []vector3.Float64{
				vector3.New(0., 0., z), vector3.New(1., 0., z), vector3.New(0., 1., z),
			})
		return &m
	}
	w := gltf.NewWriter()
	if _, err := w.AddMesh(gltf.PolyformModel{Name: "a", Mesh: tri(0)}); err != nil {
		t.Fatal(err)
	}
	if _, err := w.AddMesh(gltf.PolyformModel{Name: "b", Mesh: tri(1)}); err != nil {
		t.Fatal(err)
	}
	doc := w.ToGLTF(gltf.BufferEmbeddingStrategy_GLB)
	for i, a := range doc.Accessors {
		v := doc.BufferViews[*a.BufferView]
		t.Logf("accessor %d componentType=%d view offset=%d length=%d", i, a.ComponentType, v.ByteOffset, v.ByteLength)
		if a.ComponentType == gltf.AccessorComponentType_FLOAT && v.ByteOffset%4 != 0 {
			t.Fatalf("KNOWN-FINDING reproduced: FLOAT accessor %d starts at byte offset %d", i, v.ByteOffset)
		}
	}
}
