package kf

import (
	"bytes"
	"testing"

	"github.com/EliCDavis/polyform/formats/ply"
	"github.com/EliCDavis/polyform/modeling"
)

// C08 known finding: the ASCII reader for a single scalar property never records the property's declared
// type (Vector1PropertyReader.buildAscii leaves scalarType empty), so a "uchar" scalar is not divided by 255
// in ASCII files although the binary reader does divide: the two encodings of one file decode differently.
func TestAsciiUcharScalarIsNotNormalised(t *testing.T) {
	ascii := []byte("ply\nformat ascii 1.0\nelement vertex 1\nproperty float x\nproperty float y\nproperty float z\nproperty uchar opacity\nend_header\n0 0 0 255\n")
	bin := append([]byte("ply\nformat binary_little_endian 1.0\nelement vertex 1\nproperty float x\nproperty float y\nproperty float z\nproperty uchar opacity\nend_header\n"),
		0, 0, 0, 0, 0, 0, 0, 0, 0, 0, 0, 0, 255)
	ma, err := ply.ReadMesh(bytes.NewReader(ascii))
	if err != nil {
		t.Fatal(err)
	}
	mb, err := ply.ReadMesh(bytes.NewReader(bin))
	if err != nil {
		t.Fatal(err)
	}
	a := ma.Float1Attribute(modeling.OpacityAttribute).At(0)
	b := mb.Float1Attribute(modeling.OpacityAttribute).At(0)
	t.Logf("ascii opacity=%v binary opacity=%v", a, b)
	if a != b {
		t.Fatalf("KNOWN-FINDING reproduced: uchar scalar decodes to %v from ASCII and %v from binary", a, b)
	}
}
