package kf

import (
	"testing"

	"github.com/EliCDavis/polyform/modeling"
	"github.com/EliCDavis/polyform/modeling/meshops"
	"github.com/EliCDavis/vector/vector3"
)

// C02 known finding: filtering a TRIANGLE mesh drops corners, not triangles: the surviving index count
// need not be a multiple of three although the result still claims triangle topology.
func TestFilterOnTriangleMeshBreaksTopology(t *testing.T) {
	m := modeling.NewTriangleMesh([]int{0, 1, 2, 2, 1, 3}).
		SetFloat3Attribute(modeling.PositionAttribute, []vector3.Float64{
			vector3.New(0., 0., 0.), vector3.New(1., 0., 0.), vector3.New(0., 1., 0.), vector3.New(5., 5., 5.),
		})
	r := meshops.FilterFloat3(m, modeling.PositionAttribute, func(v vector3.Float64) bool { return v.X() < 2 })
	n := r.Indices().Len()
	t.Logf("topology=%v indices=%d attrLen=%d", r.Topology(), n, r.AttributeLength())
	if r.Topology() == modeling.TriangleTopology && n%3 != 0 {
		t.Fatalf("KNOWN-FINDING reproduced: triangle mesh with %d indices", n)
	}
}
