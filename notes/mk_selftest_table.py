#!/usr/bin/env python3
"""Builds the DESIGN.md 9.7 table from notes/selftest_results.txt (output of selftest/run.py)."""
import re, sys, collections
rows = collections.OrderedDict()
for l in open('/verif/notes/selftest_results.txt'):
    m = re.match(r'(CAUGHT|MISSED|SKIP)\s+(\S+)\s+(\S+?):\s*(.*)', l)
    if not m: continue
    st, prop, name, rest = m.groups()
    kind = 'seeded' if name.startswith('seeded/') else 'hand'
    rows.setdefault(prop, {'hand': [], 'seeded': []})[kind].append((st, name.replace('seeded/', ''), rest))
out = ['| property | hand-written mutants caught | sub-agent changes caught | not caught (and why) |', '|---|---|---|---|']
for prop in sorted(rows):
    r = rows[prop]
    hc = sum(1 for s, _, _ in r['hand'] if s == 'CAUGHT'); sc = sum(1 for s, _, _ in r['seeded'] if s == 'CAUGHT')
    missed = [n for k in ('hand', 'seeded') for s, n, _ in r[k] if s != 'CAUGHT']
    out.append('| %s | %d / %d | %d / %d | %s |' % (prop, hc, len(r['hand']), sc, len(r['seeded']), ', '.join('`%s`' % m for m in missed) or '—'))
print('\n'.join(out))
