#!/bin/sh
# usage: mk_worktree.sh <name>   -> creates /tmp/wt_<name> (detached worktree of /repo HEAD) without the contract files
set -e
d=/tmp/wt_$1
git -C /repo worktree add --detach "$d" HEAD >/dev/null 2>&1
find "$d" -name zz_contracts_verif.go -delete
git -C "$d" ls-files -d | xargs -r git -C "$d" update-index --assume-unchanged
echo "$d"
