import json,sys
pid, wt, n = sys.argv[1], sys.argv[2], sys.argv[3]
props = {json.loads(l)['id']: json.loads(l) for l in open('/verif/properties.jsonl')}
p = props[pid]
text = p.get('statement') or p.get('description')
print(f"""You are helping test a verification effort for the Go library EliCDavis/polyform (3D mesh library). You work ONLY inside the scratch git worktree {wt} (a checkout of the library). Do not read or touch /repo, /verif or any other directory; do not look for verification material anywhere. No network is available. For every go command export: GOFLAGS=-mod=mod GOPROXY=off GOSUMDB=off GOTOOLCHAIN=local

Here is a semantic property the library is supposed to satisfy:

  {pid}: {p.get('title','')}
  {text}

Task: produce {n} DIFFERENT small source changes to the library (non-test .go files only), each of which BREAKS this property while the code still compiles and the whole existing test suite still passes (go test -vet=off -count=1 ./... from the worktree root; it takes a few minutes, run it for each change). Each change should look like a plausible maintenance edit (an optimisation, refactor, fast path, off-by-one, wrong variable, swapped operand...), and should need something specific to manifest: an unusual but valid input (non-identity indices, shared vertices, spare slice capacity, particular sizes, particular parameter ranges), a multi-step sequence of operations, or two cooperating sites that each look fine alone. Not changes that ordinary use exposes at once. Spread the changes over different functions/files relevant to the property; read the code first to find the functions the property depends on.

For each change i (1..{n}) create a directory {wt}/mutations/m<i>/ containing:
  - patch.diff : the change as `git diff` output against the worktree HEAD (only the library change, not the demo). Produce it with `git diff -- <changed files> > mutations/m<i>/patch.diff` and then revert the library files (`git checkout -- <changed files>`), so the worktree is clean before you start the next change. Ignore files that git reports as deleted (zz_*.go); never include them in a patch.
  - demo_test.go : an in-package Go test file whose FIRST LINE is the comment `// copy to: <package dir relative to repo root>` (e.g. `// copy to: modeling/meshops`), containing a test function whose name starts with TestMutationDemo that PASSES on the unchanged library and FAILS with the change applied. It demonstrates the property violation on the real code. It must be self-contained (package clause of that directory or its _test package, imports only what the module already has).
  - README.md : two or three sentences: what the change is, why it breaks the property, what it needs in order to manifest.
Verify yourself, for each change: (a) with the change applied `go build ./...` succeeds and the full existing suite passes; (b) the demo (copied into the package dir as zz_mutation_demo_test.go, removed again afterwards) fails with the change and passes without it. Leave the worktree clean (apart from mutations/) at the end. Finally reply with a short list: for each m<i> the file changed, one line on what it breaks, and what it needs to manifest. Drop any change you could not make pass the suite rather than reporting it.""")
