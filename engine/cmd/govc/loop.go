package main

// Loop cutting with invariants (Barnett–Leino): check on entry, havoc loop targets, assume,
// check on every back edge.

import (
	"fmt"
	"go/types"
	"sort"
	"strings"

	"golang.org/x/tools/go/ssa"
)

type loopInfo struct {
	phis     []*ssa.Phi
	headVals map[*ssa.Phi]T
	entrySt  *state
	headSt   *state
	measure  string
}

func (fr *frame) loopContract(l *Loop) *LoopContract {
	if fr.fc == nil {
		return nil
	}
	return fr.fc.Loops[l.Ordinal]
}

// writeSets computes which local cells and heap arrays may be written in the loop body.
func (fr *frame) writeSets(l *Loop) (cells map[*ssa.Alloc]bool, heaps map[string]bool, all bool, allocs bool) {
	cells = map[*ssa.Alloc]bool{}
	heaps = map[string]bool{}
	vc := fr.vc
	var rootOfAddr func(v ssa.Value) (alloc *ssa.Alloc, heapName string, ok bool)
	rootOfAddr = func(v ssa.Value) (*ssa.Alloc, string, bool) {
		switch x := v.(type) {
		case *ssa.Alloc:
			if !x.Heap {
				return x, "", true
			}
			et := x.Type().(*types.Pointer).Elem()
			return nil, fr.heapNameForPointee(et), true
		case *ssa.FieldAddr:
			return rootOfAddr(x.X)
		case *ssa.IndexAddr:
			switch u := unalias(x.X.Type()).Underlying().(type) {
			case *types.Slice:
				return nil, vc.heapArr(vc.sortOf(u.Elem())), true
			case *types.Pointer:
				return rootOfAddr(x.X)
			}
		case *ssa.Global:
			return nil, "Glob_" + sanitize(x.Pkg.Pkg.Name()+"."+x.Name()), true
		case *ssa.ChangeType:
			return rootOfAddr(x.X)
		}
		if pt, ok := unalias(v.Type()).Underlying().(*types.Pointer); ok {
			return nil, fr.heapNameForPointee(pt.Elem()), true
		}
		return nil, "", false
	}
	var blocks []*ssa.BasicBlock
	for b := range l.Blocks {
		blocks = append(blocks, b)
	}
	sort.Slice(blocks, func(i, j int) bool { return blocks[i].Index < blocks[j].Index })
	for _, b := range blocks {
		for _, in := range b.Instrs {
			switch x := in.(type) {
			case *ssa.Store:
				a, h, ok := rootOfAddr(x.Addr)
				if !ok {
					all = true
				} else if a != nil {
					cells[a] = true
				} else {
					heaps[h] = true
				}
			case *ssa.Alloc:
				if x.Heap {
					allocs = true
					et := x.Type().(*types.Pointer).Elem()
					heaps[fr.heapNameForPointee(et)] = true
				} else {
					cells[x] = true
				}
			case *ssa.MakeSlice:
				allocs = true
				heaps[vc.heapArr(vc.sortOf(x.Type().Underlying().(*types.Slice).Elem()))] = true
			case *ssa.MakeMap:
				allocs = true
				mt := x.Type().Underlying().(*types.Map)
				heaps[vc.heapDom(vc.sortOf(mt.Key()))] = true
				heaps[vc.heapVal(vc.sortOf(mt.Key()), vc.sortOf(mt.Elem()))] = true
			case *ssa.MapUpdate:
				mt := x.Map.Type().Underlying().(*types.Map)
				heaps[vc.heapDom(vc.sortOf(mt.Key()))] = true
				heaps[vc.heapVal(vc.sortOf(mt.Key()), vc.sortOf(mt.Elem()))] = true
			case *ssa.MakeClosure, *ssa.MakeInterface, *ssa.MakeChan:
				allocs = true
			case *ssa.Range:
				allocs = true
			case *ssa.Next:
				heaps["$iter"] = true
			case ssa.CallInstruction:
				if _, isGo := in.(*ssa.Go); isGo {
					heaps["G_forked"] = true
					vc.regHeap("G_forked", "(Array Int Int)")
				}
				ws, wall, wal := fr.callWrites(x.Common())
				if wall {
					all = true
				}
				if wal {
					allocs = true
				}
				for h := range ws {
					heaps[h] = true
				}
			case *ssa.Select:
				all = true
			case *ssa.UnOp:
				if x.Op.String() == "<-" {
					all = true
				}
			}
		}
	}
	return
}

func (fr *frame) heapNameForPointee(et types.Type) string {
	vc := fr.vc
	if arr, ok := unalias(et).Underlying().(*types.Array); ok {
		return vc.heapArr(vc.sortOf(arr.Elem()))
	}
	return vc.heapPtr(vc.sortOf(et))
}

func (fr *frame) loopHead(l *Loop, entry *state, phiIn map[*ssa.Phi]T) *state {
	vc := fr.vc
	lc := fr.loopContract(l)
	var phis []*ssa.Phi
	for _, in := range l.Header.Instrs {
		if p, ok := in.(*ssa.Phi); ok {
			phis = append(phis, p)
		} else {
			break
		}
	}
	// 1. invariants on entry
	lname := fmt.Sprintf("loop%d", l.Ordinal)
	if lc != nil {
		env := fr.specEnv(entry, nil)
		env.phiOverride = phiIn
		env.atBlock = l.Header
		for i, inv := range lc.Invariants {
			g := env.evalBool(inv.E)
			if o := fr.obligeHere("invariant.init", invLabel(lname, inv, i), entry, g, fmt.Sprintf("%s:%d", inv.File, inv.Line)); o != nil {
				o.props = inv.Props
				o.clause = inv
			}
		}
	}
	// loop-level frame: "modifies x, y" — only these (and memory allocated inside the loop) change
	var lmod *loopMod
	if lc != nil && len(lc.Modifies) > 0 {
		env := fr.specEnv(entry, nil)
		env.phiOverride = phiIn
		env.atBlock = l.Header
		lmod = &loopMod{next: entry.next}
		for _, m := range lc.Modifies {
			me, err := parseSpec(m)
			if err != nil {
				stale("bad loop modifies item %q: %v", m, err)
			}
			mv := env.eval(me)
			lmod.refs = append(lmod.refs, vc.define("lmod", "Int", env.refOf(mv)))
		}
		if fr.loopMods == nil {
			fr.loopMods = map[*Loop]*loopMod{}
		}
		fr.loopMods[l] = lmod
	}
	// 2. havoc
	st := entry.clone()
	cells, heaps, all, allocs := fr.writeSets(l)
	head := map[*ssa.Phi]T{}
	for _, p := range phis {
		v := fr.freshOf(p.Name()+"_"+sanitize(p.Comment), p.Type(), st)
		// validity assumed under reach
		head[p] = v
		fr.vals[p] = v
	}
	var cks []*ssa.Alloc
	for c := range cells {
		cks = append(cks, c)
	}
	sort.Slice(cks, func(i, j int) bool { return cks[i].Name() < cks[j].Name() })
	for _, c := range cks {
		if old, ok := st.cells[c]; ok {
			n := vc.declareConst(fr.pfx+c.Name()+"_cell_h", old.Sort)
			nv := T{n, old.Sort, old.GT}
			for _, f := range vc.validity(nv, 0) {
				vc.assume("true", f)
			}
			st.cells[c] = nv
		}
	}
	if all {
		vc.havocAll(st)
	} else {
		if allocs {
			n := vc.declareConst("next", "Int")
			vc.assume("true", fmt.Sprintf("(>= %s %s)", n, entry.next))
			st.next = n
		}
		var hs []string
		for h := range heaps {
			hs = append(hs, h)
		}
		sort.Strings(hs)
		for _, h := range hs {
			if h == "$iter" {
				continue
			}
			srt := vc.heapNames[h]
			oldT := vc.heapGet(entry, h)
			n := vc.declareConst(h+"_h", srt)
			st.heap[h] = n
			if inv := vc.ghostInvariant(h, n); inv != "" {
				vc.assume("true", inv)
			}
			// automatic frame: memory that existed at function entry and is not in the modifies
			// clause keeps its contents (guaranteed by the frame.* obligations of this unit).
			if strings.HasPrefix(h, "Glob_") || strings.HasPrefix(h, "G_") || strings.HasPrefix(h, "Seen_") {
				continue
			}
			cond := fmt.Sprintf("(and (<= 0 r) (< r %s)", fr.next0)
			for _, m := range fr.modRefs {
				cond += fmt.Sprintf(" (not (= r %s))", m)
			}
			cond += ")"
			if lmod != nil {
				cond = fmt.Sprintf("(and (<= 0 r) (< r %s)", lmod.next)
				for _, m := range lmod.refs {
					cond += fmt.Sprintf(" (not (= r %s))", m)
				}
				cond += ")"
			}
			if !fr.modAll || lmod != nil {
				vc.assume("true", fmt.Sprintf("(forall ((r Int)) (! (=> %s (= (select %s r) (select %s r))) :pattern ((select %s r))))", cond, n, oldT, n))
				scond := strings.ReplaceAll(cond, " r)", " (s_arr s))")
				scond = strings.ReplaceAll(scond, " r ", " (s_arr s) ")
				vc.atOthersUnchanged(h, n, oldT, scond)
				mcond := strings.ReplaceAll(cond, " r)", " m)")
				mcond = strings.ReplaceAll(mcond, " r ", " m ")
				vc.mapOthersUnchanged(h, n, oldT, mcond)
			}
		}
	}
	// go/ssa lowers "for i := range s" to a hidden index phi [-1, phi+1]: it never drops below -1
	for _, p := range phis {
		if p.Comment == "rangeindex" {
			vc.assume(st.reach, fmt.Sprintf("(>= %s (- 1))", head[p].S))
		}
	}
	for _, p := range phis {
		fr.assumeStaticFresh(p, head[p], st)
	}
	// loop-carried references were allocated before this iteration
	for _, p := range phis {
		for _, f := range vc.allocFacts(head[p], st.next, 0) {
			vc.assume(st.reach, f)
		}
	}
	for _, c := range cks {
		if v, ok := st.cells[c]; ok {
			for _, f := range vc.allocFacts(v, st.next, 0) {
				vc.assume(st.reach, f)
			}
		}
	}
	// 3. assume invariants
	if fr.loopHeadState == nil {
		fr.loopHeadState = map[*Loop]*state{}
	}
	fr.loopHeadState[l] = st.clone()
	fr.loopMeasure[l] = ""
	if lc != nil {
		env := fr.specEnv(st, nil)
		env.atBlock = l.Header
		for _, inv := range lc.Invariants {
			g := env.evalBool(inv.E)
			vc.assume(st.reach, g)
		}
		if lc.Decreases != nil {
			m := env.eval(lc.Decreases.E)
			fr.loopMeasure[l] = vc.define(lname+"_measure", m.Sort, m.S)
		}
		// vacuity probe: invariant context must not be contradictory
		if !fr.inline {
			o := vc.oblige("vacuity.loop", lname, fr.name, st.reach, "false", "")
			o.Vacuity = true
		}
	}
	return st
}

func invLabel(lname string, c *Clause, i int) string {
	if c.Label != "" {
		return lname + "." + c.Label
	}
	return fmt.Sprintf("%s.inv%d", lname, i+1)
}

func (fr *frame) backEdge(from, header *ssa.BasicBlock, st *state) {
	l := fr.loopAt[header]
	if l == nil {
		bail("back edge to non-header block")
	}
	lc := fr.loopContract(l)
	if lc == nil {
		return
	}
	reach := and(st.reach, fr.edgeCond(from, header))
	est := st.clone()
	est.reach = reach
	// phi values along this edge
	over := map[*ssa.Phi]T{}
	pidx := -1
	for i, p := range header.Preds {
		if p == from {
			pidx = i
		}
	}
	for _, in := range header.Instrs {
		p, ok := in.(*ssa.Phi)
		if !ok {
			break
		}
		over[p] = fr.val(p.Edges[pidx])
	}
	env := fr.specEnv(est, nil)
	env.phiOverride = over
	env.atBlock = header
	lname := fmt.Sprintf("loop%d", l.Ordinal)
	for i, inv := range lc.Invariants {
		g := env.evalBool(inv.E)
		if o := fr.obligeHere("invariant.preserve", invLabel(lname, inv, i), est, g, fmt.Sprintf("%s:%d", inv.File, inv.Line)); o != nil {
			o.props = inv.Props
			o.clause = inv
		}
	}
	if len(lc.Steps) > 0 && fr.loopHeadState[l] != nil {
		// two-state clauses: the end of this iteration against its own loop-head state
		senv := fr.specEnv(est, nil)
		senv.phiOverride = over
		senv.atBlock = from
		senv.atBlockEnd = true
		penv := fr.specEnv(fr.loopHeadState[l], nil)
		penv.atBlock = header
		senv.prevEnv = penv
		for i, sc := range lc.Steps {
			lab := sc.Label
			if lab == "" {
				lab = fmt.Sprintf("step%d", i+1)
			}
			g, ok := tryEvalBool(senv, sc.E)
			if !ok {
				// a back edge where a local of "A ==> B" is not in scope (a "continue" before it is defined):
				// the antecedent must be false there
				imp, isImp := sc.E.(*EBinary)
				if !isImp || imp.Op != "==>" {
					stale("step clause %s mentions a local that is not in scope at some back edge and is not an implication", lab)
				}
				g = not(senv.evalBool(imp.X))
			}
			if o := fr.obligeHere("loop.step", lname+"."+lab, est, g, fmt.Sprintf("%s:%d", sc.File, sc.Line)); o != nil {
				o.props = sc.Props
				o.clause = sc
			}
		}
	}
	if lc.Decreases != nil && fr.loopMeasure[l] != "" {
		m := env.eval(lc.Decreases.E)
		old := fr.loopMeasure[l]
		fr.obligeHere("decreases", lname, est, fmt.Sprintf("(and (>= %s 0) (< %s %s))", old, m.S, old), fmt.Sprintf("%s:%d", lc.Decreases.File, lc.Decreases.Line))
	}
}
