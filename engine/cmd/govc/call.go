package main

// Calls: builtins, assumed library specifications, pure inlining, modular contracts, callbacks.

import (
	"fmt"
	"go/types"
	"strings"

	"golang.org/x/tools/go/ssa"
)

const maxInlineDepth = 12

// callWrites: static over-approximation of what a call may write (for loop havoc).
func (fr *frame) callWrites(c *ssa.CallCommon) (heaps map[string]bool, all bool, allocs bool) {
	heaps = map[string]bool{}
	vc := fr.vc
	if b, ok := c.Value.(*ssa.Builtin); ok {
		switch b.Name() {
		case "append":
			allocs = true
			st := c.Args[0].Type().Underlying().(*types.Slice)
			heaps[vc.heapArr(vc.sortOf(st.Elem()))] = true
		case "copy":
			st := c.Args[0].Type().Underlying().(*types.Slice)
			heaps[vc.heapArr(vc.sortOf(st.Elem()))] = true
		case "delete":
			mt := c.Args[0].Type().Underlying().(*types.Map)
			heaps[vc.heapDom(vc.sortOf(mt.Key()))] = true
		}
		return
	}
	callee := c.StaticCallee()
	if callee == nil {
		if c.IsInvoke() {
			if ws, ok := ioInvokeWrites(c, vc); ok {
				return ws, false, false
			}
			// interface method
			if ic := fr.vc.P.ifaceContract(c); ic != nil {
				return fr.contractWrites(ic, nil)
			}
			return nil, true, true
		}
		// function value: callback spec?
		if cb := fr.callbackFor(c.Value); cb != nil {
			if cb.Kind == "pure" {
				return
			}
			if cb.Kind == "fresh" {
				if pt, ok := unalias(c.Signature().Results().At(0).Type()).Underlying().(*types.Pointer); ok {
					heaps[fr.heapNameForPointee(pt.Elem())] = true
				}
				return heaps, false, true
			}
			if cb.Kind == "effect" {
				heaps["G_visits"] = true
				fr.vc.regHeap("G_visits", "(Array Int Int)")
				return
			}
		}
		return nil, true, true
	}
	if _, ok := stdSpecs[stdName(callee)]; ok {
		ws := stdWrites[stdName(callee)]
		for _, w := range ws {
			heaps[w] = true
			if _, ok := vc.heapNames[w]; !ok {
				vc.regHeap(w, ghostSorts[w])
			}
		}
		switch stdName(callee) {
		case "encoding/binary.Read":
			if op := ifaceOperand(c.Args[2]); op != nil {
				for _, h := range fr.heapNamesOfType(op.Type()) {
					heaps[h] = true
				}
				if pt, ok := unalias(op.Type()).Underlying().(*types.Pointer); ok {
					for _, h := range fr.heapNamesOfType(pt.Elem()) {
						heaps[h] = true
					}
				}
			} else {
				return nil, true, true
			}
		case "io.ReadFull", "sort.Strings":
			heaps[vc.heapArr("Int")] = true
		}
		if strings.Contains(stdName(callee), ").PutUint") {
			heaps[vc.heapArr("Int")] = true
		}
		return heaps, false, false
	}
	fc := vc.P.contractFor(callee)
	if fc != nil && !fc.Pure {
		return fr.contractWrites(fc, callee)
	}
	if fc != nil && fc.Pure || isWrapper(callee) {
		return fr.fnWrites(callee, 0)
	}
	return nil, true, true
}

func (fr *frame) contractWrites(fc *FuncContract, callee *ssa.Function) (heaps map[string]bool, all bool, allocs bool) {
	heaps = map[string]bool{}
	allocs = true
	vc := fr.vc
	for _, g := range fc.Ghost {
		_ = g
	}
	for _, m := range fc.Modifies {
		if strings.HasPrefix(m, "ghost ") {
			n := "G_" + strings.TrimSpace(m[6:])
			if _, ok := vc.heapNames[n]; !ok {
				vc.regHeap(n, ghostSorts[n])
			}
			heaps[n] = true
			continue
		}
		if m == "*" {
			return nil, true, true
		}
		if callee == nil {
			return nil, true, true
		}
		// find parameter/receiver by root identifier and derive the heap names from its type
		t := fr.typeOfModifiesItem(callee, m)
		if t == nil {
			return nil, true, true
		}
		for _, h := range fr.heapNamesOfType(t) {
			heaps[h] = true
		}
	}
	// a callee that allocates may initialise fresh memory of any kind; fresh memory does not
	// overlap anything the caller knows, so no extra havoc is needed for it.
	return
}

func (fr *frame) heapNamesOfType(t types.Type) []string {
	vc := fr.vc
	switch u := unalias(t).Underlying().(type) {
	case *types.Pointer:
		return []string{fr.heapNameForPointee(u.Elem())}
	case *types.Slice:
		return []string{vc.heapArr(vc.sortOf(u.Elem()))}
	case *types.Map:
		return []string{vc.heapDom(vc.sortOf(u.Key())), vc.heapVal(vc.sortOf(u.Key()), vc.sortOf(u.Elem()))}
	}
	return nil
}

func (fr *frame) typeOfModifiesItem(callee *ssa.Function, item string) types.Type {
	e, err := parseSpec(item)
	if err != nil {
		return nil
	}
	var typeOf func(e Expr) types.Type
	typeOf = func(e Expr) types.Type {
		switch x := e.(type) {
		case *EIdent:
			for _, p := range callee.Params {
				if p.Name() == x.Name {
					return p.Type()
				}
			}
			for _, fv := range callee.FreeVars {
				if fv.Name() == x.Name {
					if pt, ok := fv.Type().(*types.Pointer); ok {
						return pt.Elem()
					}
					return fv.Type()
				}
			}
		case *ESel:
			bt := typeOf(x.X)
			if bt == nil {
				return nil
			}
			if pt, ok := unalias(bt).Underlying().(*types.Pointer); ok {
				bt = pt.Elem()
			}
			lpkg := callee.Pkg.Pkg
			if n, ok := unalias(bt).(*types.Named); ok && n.Obj().Pkg() != nil {
				lpkg = n.Obj().Pkg() // unexported fields of a type from another package (spec access)
			}
			obj, _, _ := types.LookupFieldOrMethod(bt, true, lpkg, x.Name)
			if v, ok := obj.(*types.Var); ok {
				return v.Type()
			}
		case *EIndex:
			bt := typeOf(x.X)
			if bt == nil {
				return nil
			}
			switch u := unalias(bt).Underlying().(type) {
			case *types.Map:
				return u.Elem()
			case *types.Slice:
				return u.Elem()
			}
		}
		return nil
	}
	return typeOf(e)
}

// fnWrites: heap writes of an inlinable callee (transitively).
func (fr *frame) fnWrites(fn *ssa.Function, depth int) (heaps map[string]bool, all bool, allocs bool) {
	heaps = map[string]bool{}
	if depth > maxInlineDepth || len(fn.Blocks) == 0 {
		return nil, true, true
	}
	sub := newFrame(fr.vc, fn, "")
	sub.callbacks = fr.callbacks
	l := &Loop{Blocks: map[*ssa.BasicBlock]bool{}}
	for _, b := range fn.Blocks {
		l.Blocks[b] = true
	}
	_, hs, a, al := sub.writeSets(l)
	return hs, a, al
}

func isWrapper(fn *ssa.Function) bool {
	if fn.Synthetic == "" {
		return false
	}
	return strings.HasPrefix(fn.Synthetic, "wrapper") || strings.HasPrefix(fn.Synthetic, "bound") || strings.HasPrefix(fn.Synthetic, "thunk")
}

func rootName(v ssa.Value) string {
	for i := 0; i < 8; i++ {
		switch x := v.(type) {
		case *ssa.Parameter:
			return x.Name()
		case *ssa.FreeVar:
			return x.Name()
		case *ssa.Alloc:
			return x.Comment
		case *ssa.UnOp:
			v = x.X
		case *ssa.IndexAddr:
			v = x.X
		case *ssa.FieldAddr:
			v = x.X
		case *ssa.Field:
			v = x.X
		case *ssa.ChangeType:
			v = x.X
		case *ssa.Phi:
			return x.Comment
		default:
			return ""
		}
	}
	return ""
}

func (fr *frame) callbackFor(v ssa.Value) *CallbackSpec {
	name := rootName(v)
	if name == "" {
		return nil
	}
	if cb := fr.callbacks[name]; cb != nil {
		return cb
	}
	return fr.callbacks["*"]
}

// call returns the result values, or nil if the call never returns.
func (fr *frame) call(c *ssa.CallCommon, instr ssa.Value, st *state, pos string) []T {
	vc := fr.vc
	if b, ok := c.Value.(*ssa.Builtin); ok {
		return fr.builtin(b, c, instr, st, pos)
	}
	if !fr.inline && len(fr.fn.Blocks) == 1 {
		if callee := c.StaticCallee(); callee != nil {
			k := 0
			if callee.Signature.Recv() != nil {
				k = 1
			}
			if len(c.Args) > k {
				if fr.callLog == nil {
					fr.callLog = map[string][]T{}
				}
				fr.callLog[callee.Name()] = append(fr.callLog[callee.Name()], fr.val(c.Args[k]))
			}
		}
	}
	if fr.fc != nil && fr.fc.GuardLock != "" && !fr.inline {
		if n := callName(c); n != "" {
			for _, g := range fr.fc.GuardNames {
				if g == n {
					fr.obligeHere("guard["+n+"]", "", st, fr.heldTerm(st), pos)
				}
			}
		}
	}
	var args []T
	argOf := func(v ssa.Value) T {
		if _, isFn := v.(*ssa.Function); isFn {
			return fr.val(v)
		}
		return fr.val(v)
	}
	callee := c.StaticCallee()
	var cl *closureVal
	if callee == nil && !c.IsInvoke() {
		// call through a function value created in this frame?
		if cv, ok := fr.clos[c.Value]; ok {
			callee = cv.fn
			cl = cv
		}
	} else if mc, ok := c.Value.(*ssa.MakeClosure); ok {
		cl = fr.clos[mc]
	}
	if c.IsInvoke() {
		return fr.invokeCall(c, instr, st, pos)
	}
	for _, a := range c.Args {
		args = append(args, argOf(a))
	}
	if callee == nil {
		// function-typed value with a callback specification
		if cb := fr.callbackFor(c.Value); cb != nil {
			return fr.applyCallback(cb, c, args, instr, st)
		}
		return fr.havocCall(c, instr, st, "call through function value "+c.Value.Name())
	}
	if spec, ok := stdSpecs[stdName(callee)]; ok {
		if idx, must := mustUse[stdName(callee)]; must && instr != nil && fr.fc != nil && (fr.fc.FrameOnly || fr.fc.ClaimOnly) {
			if !resultUsed(instr, idx) {
				fr.obligeHere("mustuse["+callee.Name()+"]", "", st, "false", pos)
			}
		}
		return spec(fr, c, args, st, pos)
	}
	fc := vc.P.contractFor(callee)
	if fc != nil {
		fc.used = true
		// thin units: the error of a decoder that is itself under a truncation contract must be inspected
		if instr != nil && fr.fc != nil && (fr.fc.FrameOnly || fr.fc.ClaimOnly) && !fr.inline {
			res := callee.Signature.Results()
			if n := res.Len(); n > 0 && res.At(n-1).Type().String() == "error" {
				forC14 := false
				for _, p := range fc.Props {
					if p == "C14" {
						forC14 = true
					}
				}
				used := true
				if n == 1 {
					if refs := instr.Referrers(); refs != nil {
						used = false
						for _, r := range *refs {
							if _, isDbg := r.(*ssa.DebugRef); !isDbg {
								used = true
							}
						}
					}
				} else {
					used = resultUsed(instr, n-1)
				}
				if forC14 && !used {
					fr.obligeHere("mustuse["+callee.Name()+"]", "", st, "false", pos)
				}
			}
		}
	}
	switch {
	case fc != nil && fc.Pure && !fc.Opaque, fc == nil && isWrapper(callee):
		if fc != nil {
			fr.checkRequires(fc, callee, c, args, cl, st, pos)
			vc.pureUsed[displayName(callee)] = true
			vc.pureFns[callee] = true
		}
		return fr.pureCall(callee, c, args, cl, st, pos)
	case fc != nil:
		return fr.modularCall(fc, callee, c, args, cl, st, pos)
	}
	fr.vc.uncontracted[callee] = true
	return fr.havocCall(c, instr, st, "call to "+callee.String()+" (no contract)")
}

func (fr *frame) resultTypes(c *ssa.CallCommon) []types.Type {
	sig := c.Signature()
	var out []types.Type
	for i := 0; i < sig.Results().Len(); i++ {
		out = append(out, sig.Results().At(i).Type())
	}
	return out
}

// holdsReference: a value of this type can carry a pointer, interface, function, map, channel or slice.
func holdsReference(t types.Type, depth int) bool {
	if depth > 6 {
		return true
	}
	switch u := unalias(t).Underlying().(type) {
	case *types.Basic:
		return u.Kind() == types.UnsafePointer
	case *types.Struct:
		for i := 0; i < u.NumFields(); i++ {
			if holdsReference(u.Field(i).Type(), depth+1) {
				return true
			}
		}
		return false
	case *types.Array:
		return holdsReference(u.Elem(), depth+1)
	}
	return true
}

func (fr *frame) havocCall(c *ssa.CallCommon, instr ssa.Value, st *state, why string) []T {
	fr.abstract(why)
	// a callee that receives only plain values (numbers, structs of numbers) cannot reach any reader or writer:
	// the ghost stream state survives the call
	keep := map[string]string{}
	plain := !c.IsInvoke()
	if plain {
		if _, isFn := c.Value.(*ssa.Function); !isFn {
			plain = false
		}
	}
	if plain {
		for _, a := range c.Args {
			if holdsReference(a.Type(), 0) {
				plain = false
				break
			}
		}
	}
	if plain {
		for _, g := range []string{"G_written", "G_consumed", "G_wbytes", "G_lines", "G_scanErr", "G_lastScanOK", "G_lastSlice", "G_lastInt"} {
			if _, reg := fr.vc.heapNames[g]; reg {
				keep[g] = fr.vc.heapGetQuiet(st, g)
			}
		}
	}
	fr.vc.havocAll(st)
	for g, v := range keep {
		st.heap[g] = v
	}
	var res []T
	for i, t := range fr.resultTypes(c) {
		res = append(res, fr.freshOf(fmt.Sprintf("hv%d", i), t, st))
	}
	if res == nil {
		res = []T{}
	}
	return res
}

func (fr *frame) calleeEnvVars(callee *ssa.Function, args []T, cl *closureVal, st *state) (map[string]T, map[string]*addr) {
	vars := map[string]T{}
	addrs := map[string]*addr{}
	for i, p := range callee.Params {
		if i < len(args) {
			a := args[i]
			a.GT = p.Type()
			vars[p.Name()] = a
		}
	}
	if cl != nil {
		for i, fv := range callee.FreeVars {
			if i < len(cl.bindA) && cl.bindA[i] != nil {
				addrs[fv.Name()] = cl.bindA[i]
			} else if i < len(cl.bindT) {
				vars[fv.Name()] = cl.bindT[i]
			}
		}
	}
	return vars, addrs
}

func (fr *frame) checkRequires(fc *FuncContract, callee *ssa.Function, c *ssa.CallCommon, args []T, cl *closureVal, st *state, pos string) {
	if len(fc.Requires) == 0 || fr.inline {
		return
	}
	vars, addrs := fr.calleeEnvVars(callee, args, cl, st)
	env := &Env{vc: fr.vc, fr: fr, pkg: pkgOf(callee), vars: vars, varAddrs: addrs, st: st, old: st, next0: fr.next0, calleeScope: true, cbs: cbMap(fc)}
	for i, rq := range fc.Requires {
		g := env.evalBool(rq.E)
		lab := rq.Label
		if lab == "" {
			lab = fmt.Sprintf("pre%d", i+1)
		}
		fr.obligeHere("requires@call["+shortFn(callee)+"]", lab, st, g, pos)
	}
}

func shortFn(fn *ssa.Function) string {
	k := funcKey(fn)
	if i := strings.Index(k, "::"); i >= 0 {
		return k[i+2:]
	}
	return fn.Name()
}

func pkgOf(fn *ssa.Function) *types.Package {
	r := rootOf(fn)
	if o := r.Origin(); o != nil {
		r = o
	}
	if r.Pkg != nil {
		return r.Pkg.Pkg
	}
	if r.Object() != nil {
		return r.Object().Pkg()
	}
	return nil
}

func (fr *frame) inlineCall(callee *ssa.Function, c *ssa.CallCommon, args []T, cl *closureVal, st *state, pos string) []T {
	vc := fr.vc
	if fr.depth > maxInlineDepth {
		bail("inlining too deep at %s", callee)
	}
	if len(callee.Blocks) == 0 {
		return fr.havocCall(c, nil, st, "external function "+callee.String())
	}
	sub := newFrame(vc, callee, vc.fresh("i")+"_")
	sub.inline = true
	sub.caller = fr
	sub.depth = fr.depth + 1
	sub.next0 = fr.next0
	sub.modRefs = fr.modRefs
	sub.callbacks = map[string]*CallbackSpec{}
	if star := fr.callbacks["*"]; star != nil {
		sub.callbacks["*"] = star
	}
	// callbacks passed down by parameter name are not tracked; inlined callees see none
	for i, p := range callee.Params {
		a := args[i]
		a.GT = p.Type()
		sub.vals[p] = a
		if c != nil && i < len(c.Args) {
			if cv, ok := fr.clos[c.Args[i]]; ok {
				sub.clos[p] = cv
			}
		}
	}
	if cl != nil {
		for i, fv := range callee.FreeVars {
			if cl.bindA[i] != nil {
				sub.addrs[fv] = cl.bindA[i]
			}
			sub.vals[fv] = cl.bindT[i]
			if cv, ok := fr.clos[cl.bindings[i]]; ok {
				sub.clos[fv] = cv
			}
		}
	} else if len(callee.FreeVars) > 0 {
		bail("inlining closure %s without bindings", callee)
	}
	sub.run(st)
	if len(sub.rets) == 0 {
		return nil
	}
	// merge return states into st
	var edges []edge
	for _, r := range sub.rets {
		edges = append(edges, edge{st: r.st, reach: r.st.reach})
	}
	var merged *state
	if len(edges) == 1 {
		merged = edges[0].st
	} else {
		merged = sub.mergeEdges(callee.Blocks[0], edges)
	}
	// drop callee cells
	for k := range merged.cells {
		if k.Parent() == callee {
			if _, mine := st.cells[k]; !mine {
				delete(merged.cells, k)
			}
		}
	}
	*st = *merged
	n := len(sub.rets[0].vals)
	res := make([]T, n)
	for i := 0; i < n; i++ {
		term := sub.rets[len(sub.rets)-1].vals[i].S
		for k := len(sub.rets) - 2; k >= 0; k-- {
			term = ite(sub.rets[k].st.reach, sub.rets[k].vals[i].S, term)
		}
		proto := sub.rets[0].vals[i]
		res[i] = T{vc.define(sub.pfx+"ret", proto.Sort, term), proto.Sort, proto.GT}
	}
	for k, v := range sub.clos {
		_ = k
		_ = v
	}
	// closures returned by value keep their identity through fr.clos keyed by SSA value; not needed here
	return res
}

func (fr *frame) modularCall(fc *FuncContract, callee *ssa.Function, c *ssa.CallCommon, args []T, cl *closureVal, st *state, pos string) []T {
	vc := fr.vc
	fr.checkRequires(fc, callee, c, args, cl, st, pos)
	pre := st.clone()
	vars, addrs := fr.calleeEnvVars(callee, args, cl, pre)
	envPre := &Env{vc: vc, fr: fr, pkg: pkgOf(callee), vars: vars, varAddrs: addrs, st: pre, old: pre, next0: pre.next, calleeScope: true, cbs: cbMap(fc)}
	// frame: what the callee may modify must be modifiable by the caller
	newNext := vc.declareConst("next", "Int")
	vc.assume("true", fmt.Sprintf("(>= %s %s)", newNext, pre.next))
	st.next = newNext
	for _, m := range fc.Modifies {
		if strings.HasPrefix(m, "ghost ") {
			n := "G_" + strings.TrimSpace(m[6:])
			if _, ok := vc.heapNames[n]; !ok {
				vc.regHeap(n, ghostSorts[n])
			}
			st.heap[n] = vc.declareConst(n, vc.heapNames[n])
			if inv := vc.ghostInvariant(n, st.heap[n]); inv != "" {
				vc.assume("true", inv)
			}
			continue
		}
		if m == "*" {
			vc.havocAll(st)
			continue
		}
		me, err := parseSpec(m)
		if err != nil {
			bail("bad modifies item %q: %v", m, err)
		}
		mv := envPre.eval(me)
		fr.havocTarget(mv, st, pos)
	}
	var res []T
	sigRes := callee.Signature.Results()
	for i := 0; i < sigRes.Len(); i++ {
		res = append(res, fr.freshOf(fmt.Sprintf("%s_r%d", sanitize(callee.Name()), i), sigRes.At(i).Type(), st))
	}
	if res == nil {
		res = []T{}
	}
	// assume postconditions
	postVars := map[string]T{}
	for k, v := range vars {
		postVars[k] = v
	}
	names := fc.Returns
	if len(names) == 0 {
		if len(res) == 1 {
			names = []string{"result"}
		} else {
			for i := range res {
				names = append(names, fmt.Sprintf("result%d", i))
			}
		}
	}
	for i, r := range res {
		if i < len(names) {
			postVars[names[i]] = r
		}
	}
	envPost := &Env{vc: vc, fr: fr, pkg: pkgOf(callee), vars: postVars, varAddrs: addrs, st: st, old: pre, next0: pre.next, calleeScope: true, cbs: cbMap(fc)}
	for _, en := range fc.Ensures {
		if en.Local || (!vc.logWrites && strings.Contains(en.Src, "wrote(")) || strings.Contains(en.Src, "callarg(") || strings.Contains(en.Src, "ncalls(") {
			// content-of-stream clauses are used only by callers whose own contract talks about stream content
			continue
		}
		g := envPost.evalBool(en.E)
		vc.assume(st.reach, g)
	}
	if fc.Trusted {
		vc.assumedStd["trusted contract: "+displayName(callee)] = true
	}
	return res
}

// havocTarget forgets the contents of the object a modifies item denotes; the caller must be
// allowed to modify it too.
func (fr *frame) havocTarget(mv T, st *state, pos string) {
	vc := fr.vc
	switch u := unalias(mv.GT).Underlying().(type) {
	case *types.Pointer:
		h := fr.heapNameForPointee(u.Elem())
		fr.frameCheck("frame.call", mv.S, st, pos)
		srt := vc.heapNames[h]
		inner := srt[len("(Array Int ") : len(srt)-1]
		nv := vc.declareConst("hv", inner)
		vc.heapSet(st, h, fmt.Sprintf("(store %s %s %s)", vc.heapGet(st, h), mv.S, nv))
	case *types.Slice:
		h := vc.heapArr(vc.sortOf(u.Elem()))
		ref := fmt.Sprintf("(s_arr %s)", mv.S)
		// an empty slice has no elements a callee could write
		fr.frameCheck("frame.call", ref, st, pos, fmt.Sprintf("(= (s_len %s) 0)", mv.S))
		nv := vc.declareConst("hv", "(Array Int "+vc.sortOf(u.Elem())+")")
		vc.heapStoreRef(st, h, ref, nv)
	case *types.Map:
		ks, vs := vc.sortOf(u.Key()), vc.sortOf(u.Elem())
		fr.frameCheck("frame.call", mv.S, st, pos)
		d := vc.heapDom(ks)
		v := vc.heapVal(ks, vs)
		nd := vc.declareConst("hv", "(Array "+ks+" Bool)")
		nv := vc.declareConst("hv", "(Array "+ks+" "+vs+")")
		od, ov := vc.heapGet(st, d), vc.heapGet(st, v)
		vc.heapSet(st, d, fmt.Sprintf("(store %s %s %s)", od, mv.S, nd))
		vc.heapSet(st, v, fmt.Sprintf("(store %s %s %s)", ov, mv.S, nv))
		vc.mapOthersUnchanged(d, st.heap[d], od, fmt.Sprintf("(not (= m %s))", mv.S))
		vc.mapOthersUnchanged(v, st.heap[v], ov, fmt.Sprintf("(not (= m %s))", mv.S))
	default:
		bail("modifies item of type %s", mv.GT)
	}
}

func (fr *frame) invokeCall(c *ssa.CallCommon, instr ssa.Value, st *state, pos string) []T {
	if res, ok := fr.ioInvoke(c, st, pos); ok {
		return res
	}
	if ic := fr.vc.P.ifaceContract(c); ic != nil {
		// interface-method contract: parameters by position (recv, then args)
		var args []T
		args = append(args, fr.val(c.Value))
		for _, a := range c.Args {
			args = append(args, fr.val(a))
		}
		return fr.ifaceModularCall(ic, c, args, st, pos)
	}
	// error.Error() and friends: pure uninterpreted
	if c.Method.Name() == "Error" && c.Signature().Params().Len() == 0 {
		fr.vc.decl("errstr", "(declare-fun errstr (Int) Int)")
		return []T{{fmt.Sprintf("(errstr %s)", fr.val(c.Value).S), "Int", types.Typ[types.String]}}
	}
	return fr.havocCall(c, instr, st, "interface call "+c.Method.Name()+" (no interface contract)")
}

func (fr *frame) applyCallback(cb *CallbackSpec, c *ssa.CallCommon, args []T, instr ssa.Value, st *state) []T {
	vc := fr.vc
	rts := fr.resultTypes(c)
	switch cb.Kind {
	case "pure":
		// the function value applied to its arguments: an uninterpreted function of (function id, arguments)
		fv := fr.val(c.Value)
		res := vc.applyFuncValue(fv, c.Signature(), args)
		if res == nil {
			res = []T{}
		}
		return res
	case "fresh":
		// returns a pointer to a freshly allocated object whose value is a pure function of (function id, args)
		fv := fr.val(c.Value)
		if len(rts) != 1 {
			bail("fresh callback must return exactly one pointer")
		}
		pt, ok := unalias(rts[0]).Underlying().(*types.Pointer)
		if !ok {
			bail("fresh callback must return a pointer")
		}
		val := vc.applyFreshValue(fv, c.Signature(), pt.Elem(), args)
		r := vc.alloc(st)
		h := vc.heapPtr(val.Sort)
		vc.heapSet(st, h, fmt.Sprintf("(store %s %s %s)", vc.heapGet(st, h), r, val.S))
		return []T{{r, "Int", rts[0]}}
	case "effect":
		// ghost: visits[first argument] += 1 ; results unconstrained
		vc.regHeap("G_visits", "(Array Int Int)")
		cur := vc.heapGet(st, "G_visits")
		idx := args[0].S
		vc.heapSet(st, "G_visits", fmt.Sprintf("(store %s %s (+ (select %s %s) 1))", cur, idx, cur, idx))
		if strings.TrimSpace(cb.Src) != "" {
			// optional well-definedness requirement on the arguments, e.g. "requires 0 <= i"
		}
		var res []T
		for i, rt := range rts {
			res = append(res, fr.freshOf(fmt.Sprintf("cbr%d", i), rt, st))
		}
		if res == nil {
			res = []T{}
		}
		return res
	}
	return fr.havocCall(c, instr, st, "callback "+cb.Param)
}

var ghostSorts = map[string]Sort{
	"G_visits": "(Array Int Int)",
	"G_forked": "(Array Int Int)",
}

func (fr *frame) doMakeClosure(x *ssa.MakeClosure, st *state) {
	fn := x.Fn.(*ssa.Function)
	cv := &closureVal{fn: fn, bindings: x.Bindings}
	for _, b := range x.Bindings {
		var a *addr
		if aa, ok := fr.addrs[b]; ok {
			a = aa
		} else if _, isPtr := unalias(b.Type()).Underlying().(*types.Pointer); isPtr {
			a = fr.addrOf(b, st)
		}
		cv.bindA = append(cv.bindA, a)
		cv.bindT = append(cv.bindT, fr.val(b))
	}
	fr.clos[x] = cv
	r := fr.vc.alloc(st)
	fr.vals[x] = T{r, "Int", x.Type()}
	fr.closureAxiom(fn, cv, r, st)
}

// closureAxiom: a closure under contract whose calls are pure behaves as its contract says:
//
//	forall params :: requires ==> ensures[result := apply(closure, params)]
//
// with the captured variables read at creation time. Sound as long as the captured state is not
// modified after the closure is created (listed as an assumption).
func (fr *frame) closureAxiom(fn *ssa.Function, cv *closureVal, id string, st *state) {
	vc := fr.vc
	fc := vc.P.contractFor(fn)
	if fn.Signature.Results().Len() != 1 {
		return
	}
	capDepth := len(vc.capStack)
	cbSave0 := fr.callbacks
	defer func() {
		if r := recover(); r != nil {
			vc.capStack = vc.capStack[:capDepth]
			fr.callbacks = cbSave0
			switch e := r.(type) {
			case unsupported:
				vc.notes = append(vc.notes, fmt.Sprintf("closure %s: no axiom (%s)", fn.Name(), e.msg))
				return
			case staleErr:
				// the closure's contract no longer matches its code: nothing is known about the function value
				vc.notes = append(vc.notes, fmt.Sprintf("closure %s: contract stale, no axiom (%s)", fn.Name(), e.msg))
				return
			}
			panic(r)
		}
	}()
	if fc == nil || len(fc.Ensures) == 0 {
		fr.closureBodyAxiom(fn, cv, id, st)
		return
	}
	vars := map[string]T{}
	addrs := map[string]*addr{}
	for i, fv := range fn.FreeVars {
		if cv.bindA[i] != nil {
			addrs[fv.Name()] = cv.bindA[i]
		} else {
			vars[fv.Name()] = cv.bindT[i]
		}
	}
	var binders []string
	var args []T
	for _, p := range fn.Params {
		vc.ctr++
		n := fmt.Sprintf("%s!c%d", sanitize(p.Name()), vc.ctr)
		srt := vc.sortOf(p.Type())
		binders = append(binders, fmt.Sprintf("(%s %s)", n, srt))
		t := T{n, srt, p.Type()}
		vars[p.Name()] = t
		args = append(args, t)
	}
	app := vc.applyFuncValue(T{id, "Int", fn.Signature}, fn.Signature, args)[0]
	if fc.FreshResult {
		pt, ok := unalias(fn.Signature.Results().At(0).Type()).Underlying().(*types.Pointer)
		if !ok {
			bail("freshresult function must return a pointer")
		}
		app = vc.applyFreshValue(T{id, "Int", fn.Signature}, fn.Signature, pt.Elem(), args)
	}
	names := fc.Returns
	if len(names) == 0 {
		names = []string{"result"}
	}
	vars[names[0]] = app
	env := &Env{vc: vc, fr: fr, pkg: pkgOf(fn), vars: vars, varAddrs: addrs, st: st, old: st, next0: st.next, calleeScope: true, qdepth: 1}
	cbSave := fr.callbacks
	fr.callbacks = map[string]*CallbackSpec{}
	for _, cb := range fc.Callbacks {
		fr.callbacks[cb.Param] = cb
	}
	vc.pushCapture()
	var pre, post []string
	for _, rq := range fc.Requires {
		pre = append(pre, env.evalBool(rq.E))
	}
	for _, en := range fc.Ensures {
		if en.Local || strings.Contains(en.Src, "callarg(") || strings.Contains(en.Src, "ncalls(") {
			continue
		}
		post = append(post, env.evalBool(en.E))
	}
	body := vc.popCapture(implies(and(pre...), and(post...)))
	fr.callbacks = cbSave
	if len(binders) == 0 {
		vc.assume(st.reach, body)
	} else {
		vc.assume(st.reach, fmt.Sprintf("(forall (%s) (! %s :pattern (%s)))", strings.Join(binders, " "), body, app.S))
	}
	vc.assumedStd["closure contracts are used as axioms about the function value; captured state is assumed unmodified after closure creation"] = true
}

func (fr *frame) doGo(x *ssa.Go, st *state) {
	if fr.fc == nil || fr.fc.ForkJoin == "" {
		fr.abstract("go statement outside forkjoin function")
		fr.vc.havocAll(st)
		return
	}
	// fork rule: charge the spawned function like a call to its contract; the declared footprints of
	// all workers forked so far must be pairwise disjoint (ghost counter "forked").
	vc := fr.vc
	// a variable captured by reference must not be written by the parent once the goroutine may run
	if mc, ok := x.Common().Value.(*ssa.MakeClosure); ok {
		for _, b := range mc.Bindings {
			al, isAlloc := b.(*ssa.Alloc)
			if !isAlloc {
				continue
			}
			if storeReachableAfter(x, al) {
				fr.obligeHere("forkjoin.capture", sanitize(al.Comment), st, "false", fr.pos(x.Pos()))
			}
		}
	}
	if callee := x.Common().StaticCallee(); callee != nil {
		if fc := vc.P.contractFor(callee); fc != nil && fc.Footprint[0] != nil {
			var args []T
			for _, a := range x.Common().Args {
				args = append(args, fr.val(a))
			}
			var cl *closureVal
			if mc, ok := x.Common().Value.(*ssa.MakeClosure); ok {
				cl = fr.clos[mc]
			}
			vars, addrs := fr.calleeEnvVars(callee, args, cl, st)
			env := &Env{vc: vc, fr: fr, pkg: pkgOf(callee), vars: vars, varAddrs: addrs, st: st, old: st, next0: fr.next0, calleeScope: true}
			lo := vc.define("fp_lo", "Int", env.eval(fc.Footprint[0]).S)
			hi := vc.define("fp_hi", "Int", env.eval(fc.Footprint[1]).S)
			vc.regHeap("G_forked", "(Array Int Int)")
			cur := vc.heapGet(st, "G_forked")
			fr.obligeHere("forkjoin.disjoint", "", st, fmt.Sprintf("(forall ((k Int)) (=> (and (<= %s k) (< k %s)) (= (select %s k) 0)))", lo, hi, cur), fr.pos(x.Pos()))
			nf := vc.declareConst("G_forked", "(Array Int Int)")
			vc.assume(st.reach, fmt.Sprintf("(forall ((k Int)) (! (= (select %s k) (+ (select %s k) (ite (and (<= %s k) (< k %s)) 1 0))) :pattern ((select %s k))))", nf, cur, lo, hi, nf))
			st.heap["G_forked"] = nf
		} else {
			fr.abstract("go statement: spawned function declares no footprint (race freedom not checked)")
		}
	}
	fr.call(x.Common(), nil, st, fr.pos(x.Pos()))
	fr.vc.assumedStd["fork/join sequentialisation (disjoint footprints => any interleaving equals sequential composition)"] = true
}

// pureCall: a pure function is an SMT function symbol. At ground call sites the application is
// equated with the inlined body (definitional axiom instantiated there); under a binder only the
// application is used, so quantified facts connect to ground ones by congruence. Functions that
// read the heap, take or return non-value data, or have several results are always inlined.
func (fr *frame) pureCall(callee *ssa.Function, c *ssa.CallCommon, args []T, cl *closureVal, st *state, pos string) []T {
	vc := fr.vc
	if cl != nil || callee.Signature.Results().Len() != 1 || len(callee.FreeVars) > 0 || vc.pureHeapDep[callee] || isSmallFn(callee, 0) {
		return fr.inlineCall(callee, c, args, cl, st, pos)
	}
	for _, a := range args {
		if a.Sort == "Slice" || fr.clos[nil] != nil {
			return fr.inlineCall(callee, c, args, cl, st, pos)
		}
	}
	for _, p := range callee.Params {
		switch unalias(p.Type()).Underlying().(type) {
		case *types.Pointer, *types.Map, *types.Slice, *types.Signature, *types.Interface, *types.Chan:
			return fr.inlineCall(callee, c, args, cl, st, pos)
		}
	}
	rt := callee.Signature.Results().At(0).Type()
	switch unalias(rt).Underlying().(type) {
	case *types.Pointer, *types.Map, *types.Slice, *types.Signature, *types.Interface, *types.Chan:
		return fr.inlineCall(callee, c, args, cl, st, pos)
	}
	name := "fn." + sanitize(displayName(callee))
	var as, ss []string
	for _, a := range args {
		as = append(as, a.S)
		ss = append(ss, a.Sort)
	}
	rs := vc.sortOf(rt)
	app := name
	if len(as) > 0 {
		app = fmt.Sprintf("(%s %s)", name, strings.Join(as, " "))
	}
	under := len(vc.capStack) > 0
	if under && vc.pureHeapIndep[callee] {
		vc.decl(name, fmt.Sprintf("(declare-fun %s (%s) %s)", name, strings.Join(ss, " "), rs))
		return []T{{app, rs, rt}}
	}
	// inline (possibly as a trial under a binder)
	reads0 := vc.heapReads
	next0 := st.next
	if under {
		vc.pushCapture()
	}
	res := fr.inlineCall(callee, c, args, cl, st, pos)
	indep := vc.heapReads == reads0 && st.next == next0 && res != nil
	if under {
		cb := vc.capStack[len(vc.capStack)-1]
		vc.capStack = vc.capStack[:len(vc.capStack)-1]
		if indep {
			// discard the trial; use the application
			vc.pureHeapIndep[callee] = true
			vc.decl(name, fmt.Sprintf("(declare-fun %s (%s) %s)", name, strings.Join(ss, " "), rs))
			return []T{{app, rs, rt}}
		}
		vc.pureHeapDep[callee] = true
		outer := vc.capStack[len(vc.capStack)-1]
		outer.items = append(outer.items, cb.items...)
		return res
	}
	if !indep {
		vc.pureHeapDep[callee] = true
		return res
	}
	vc.pureHeapIndep[callee] = true
	vc.decl(name, fmt.Sprintf("(declare-fun %s (%s) %s)", name, strings.Join(ss, " "), rs))
	vc.assumeDef(fmt.Sprintf("(= %s %s)", app, res[0].S))
	n := vc.fresh("app")
	vc.cmdAlt[len(vc.cmds)] = fmt.Sprintf("(define-fun %s () %s %s)", n, rs, res[0].S)
	vc.emit(fmt.Sprintf("(define-fun %s () %s %s)", n, rs, app))
	return []T{{n, rs, rt}}
}

// isSmallFn: accessors, constructors and similar one-block functions are always inlined (also under
// binders), so that quantified facts about them stay connected to their definition.
func isSmallFn(fn *ssa.Function, depth int) bool {
	if len(fn.Blocks) != 1 || depth > 2 {
		return false
	}
	cnt := 0
	for _, in := range fn.Blocks[0].Instrs {
		if _, ok := in.(*ssa.DebugRef); !ok {
			cnt++
		}
	}
	if cnt > 30 {
		return false
	}
	for _, in := range fn.Blocks[0].Instrs {
		switch x := in.(type) {
		case *ssa.Call:
			callee := x.Common().StaticCallee()
			if callee == nil {
				if _, ok := x.Common().Value.(*ssa.Builtin); ok {
					continue
				}
				return false
			}
			if _, ok := stdSpecs[stdName(callee)]; ok {
				if stdName(callee) == "math.Sqrt" {
					return false
				}
				continue
			}
			if !isSmallFn(callee, depth+1) {
				return false
			}
		case *ssa.BinOp:
			if x.Op.String() == "*" && isFloat(x.Type()) && depth >= 0 {
				// products of reals stay behind a function symbol unless the function is a plain accessor
				return false
			}
		}
	}
	return true
}

// applyFuncValue: result terms of calling a pure function value.
func (vc *VC) applyFuncValue(fv T, sig *types.Signature, args []T) []T {
	var res []T
	for i := 0; i < sig.Results().Len(); i++ {
		rt := sig.Results().At(i).Type()
		name := fmt.Sprintf("apply%d.%s", i, sigKey(sig))
		as := []string{fv.S}
		ss := []string{"Int"}
		for _, a := range args {
			as = append(as, a.S)
			ss = append(ss, a.Sort)
		}
		rs := vc.sortOf(rt)
		vc.decl(name, fmt.Sprintf("(declare-fun %s (%s) %s)", name, strings.Join(ss, " "), rs))
		res = append(res, T{fmt.Sprintf("(%s %s)", name, strings.Join(as, " ")), rs, rt})
	}
	return res
}

func sigKey(sig *types.Signature) string {
	var ps, rs []string
	for i := 0; i < sig.Params().Len(); i++ {
		ps = append(ps, shortTypeName(unalias(sig.Params().At(i).Type())))
	}
	for i := 0; i < sig.Results().Len(); i++ {
		rs = append(rs, shortTypeName(unalias(sig.Results().At(i).Type())))
	}
	return sanitize("func(" + strings.Join(ps, ",") + ")" + strings.Join(rs, ","))
}

// closureBodyAxiom: a loop-free closure without a contract is described by its own body:
//
//	forall params :: apply(closure, params) == body(params)
func (fr *frame) closureBodyAxiom(fn *ssa.Function, cv *closureVal, id string, st *state) {
	vc := fr.vc
	if len(findLoops(fn)) > 0 || len(fn.Blocks) == 0 {
		return
	}
	ws, all, _ := fr.fnWrites(fn, 0)
	if all || len(ws) > 0 {
		return
	}
	var binders []string
	var args []T
	for _, p := range fn.Params {
		vc.ctr++
		n := fmt.Sprintf("%s!c%d", sanitize(p.Name()), vc.ctr)
		srt := vc.sortOf(p.Type())
		binders = append(binders, fmt.Sprintf("(%s %s)", n, srt))
		args = append(args, T{n, srt, p.Type()})
	}
	app := vc.applyFuncValue(T{id, "Int", fn.Signature}, fn.Signature, args)[0]
	cbSave := fr.callbacks
	// every call through a function value inside the closure is taken as a pure application
	fr.callbacks = map[string]*CallbackSpec{"*": {Param: "*", Kind: "pure"}}
	vc.pushCapture()
	tmp := st.clone()
	tmp.reach = "true"
	sub := *fr
	sub.inline = true
	res := (&sub).inlineCall(fn, nil, args, cv, tmp, "")
	fr.callbacks = cbSave
	if len(res) != 1 {
		vc.popCapture("true")
		return
	}
	body := vc.popCapture(fmt.Sprintf("(= %s %s)", app.S, res[0].S))
	if len(binders) == 0 {
		vc.assume(st.reach, body)
	} else {
		vc.assume(st.reach, fmt.Sprintf("(forall (%s) (! %s :pattern (%s)))", strings.Join(binders, " "), body, app.S))
	}
	vc.assumedStd["loop-free closures without a contract are described by their body; calls through captured function values are pure; captured state is assumed unmodified after closure creation"] = true
}

// storeReachableAfter: does the function write the captured variable at a point reachable from the
// go statement (later in the same block, or in any block reachable through the CFG incl. back edges)?
func storeReachableAfter(g *ssa.Go, al *ssa.Alloc) bool {
	isStoreTo := func(in ssa.Instruction) bool {
		st, ok := in.(*ssa.Store)
		if !ok {
			return false
		}
		a := st.Addr
		for {
			switch x := a.(type) {
			case *ssa.FieldAddr:
				a = x.X
				continue
			case *ssa.IndexAddr:
				a = x.X
				continue
			}
			break
		}
		return a == ssa.Value(al)
	}
	blk := g.Block()
	after := false
	for _, in := range blk.Instrs {
		if in == ssa.Instruction(g) {
			after = true
			continue
		}
		if after && isStoreTo(in) {
			return true
		}
	}
	seen := map[*ssa.BasicBlock]bool{}
	stack := append([]*ssa.BasicBlock{}, blk.Succs...)
	for len(stack) > 0 {
		b := stack[len(stack)-1]
		stack = stack[:len(stack)-1]
		if seen[b] {
			continue
		}
		seen[b] = true
		for _, in := range b.Instrs {
			// a join (wg.Wait) ends the window; conservatively we do not stop there
			if isStoreTo(in) {
				return true
			}
		}
		stack = append(stack, b.Succs...)
	}
	return false
}

// applyFreshValue: the value of the object a "fresh" function value returns a pointer to.
func (vc *VC) applyFreshValue(fv T, sig *types.Signature, elem types.Type, args []T) T {
	name := "applyval." + sigKey(sig)
	as := []string{fv.S}
	ss := []string{"Int"}
	for _, a := range args {
		as = append(as, a.S)
		ss = append(ss, a.Sort)
	}
	rs := vc.sortOf(elem)
	vc.decl(name, fmt.Sprintf("(declare-fun %s (%s) %s)", name, strings.Join(ss, " "), rs))
	return T{fmt.Sprintf("(%s %s)", name, strings.Join(as, " ")), rs, elem}
}

func cbMap(fc *FuncContract) map[string]*CallbackSpec {
	m := map[string]*CallbackSpec{}
	for _, cb := range fc.Callbacks {
		m[cb.Param] = cb
	}
	return m
}

// resultUsed: is result #idx of the call consumed by anything but debug information?
func resultUsed(v ssa.Value, idx int) bool {
	refs := v.Referrers()
	if refs == nil {
		return true
	}
	for _, r := range *refs {
		switch x := r.(type) {
		case *ssa.DebugRef:
			continue
		case *ssa.Extract:
			if x.Index == idx {
				if er := x.Referrers(); er != nil {
					for _, u := range *er {
						if _, isDbg := u.(*ssa.DebugRef); !isDbg {
							return true
						}
					}
				}
			}
			continue
		default:
			_ = x
			return true
		}
	}
	return false
}

// heldTerm: the ghost flag of the contract's guard lock in state st.
func (fr *frame) heldTerm(st *state) string {
	e, err := parseSpec("held(" + fr.fc.GuardLock + ")")
	if err != nil {
		stale("guarded: bad lock expression %q: %v", fr.fc.GuardLock, err)
	}
	return fr.specEnv(st, nil).evalBool(e)
}
