package main

import (
	"encoding/json"
	"go/ast"
	"go/token"
	"os"
	"path/filepath"
	"sort"

	"golang.org/x/tools/go/ssa"
)

// Rename tolerance for contract clauses that mention a function's locals (loop invariants, exit clauses).
//
// contracts/locals.json records, per function under contract, the ordered list of local definitions
// ("kind:name" for := definitions, var declarations and range variables, in source order) as of the last
// -update-registry run.  When a clause mentions a name the current body no longer defines, and the body has the
// same sequence of definition kinds as recorded (a pure renaming), the name is mapped by position.  Anything
// else is a stale contract.

type localsRegistry map[string][]string

func localsPath(verif string) string { return filepath.Join(verif, "contracts", "locals.json") }

func loadLocals(verif string) localsRegistry {
	reg := localsRegistry{}
	if data, err := os.ReadFile(localsPath(verif)); err == nil {
		_ = json.Unmarshal(data, &reg)
	}
	return reg
}

func saveLocals(verif string, reg localsRegistry) {
	data, _ := json.MarshalIndent(reg, "", " ")
	os.MkdirAll(filepath.Dir(localsPath(verif)), 0o755)
	os.WriteFile(localsPath(verif), append(data, '\n'), 0o644)
}

// localDefs lists the local definitions of fn's own body (nested function literals excluded) in source order.
func localDefs(fn *ssa.Function) []string {
	if fn == nil {
		return nil
	}
	if fn.Origin() != nil {
		fn = fn.Origin()
	}
	var body *ast.BlockStmt
	switch n := fn.Syntax().(type) {
	case *ast.FuncDecl:
		body = n.Body
	case *ast.FuncLit:
		body = n.Body
	}
	if body == nil {
		return nil
	}
	type def struct {
		pos  token.Pos
		text string
	}
	var defs []def
	add := func(kind string, e ast.Expr) {
		if id, ok := e.(*ast.Ident); ok && id.Name != "_" {
			defs = append(defs, def{id.Pos(), kind + ":" + id.Name})
		}
	}
	ast.Inspect(body, func(n ast.Node) bool {
		switch x := n.(type) {
		case *ast.FuncLit:
			return false
		case *ast.AssignStmt:
			if x.Tok == token.DEFINE {
				for _, l := range x.Lhs {
					add("def", l)
				}
			}
		case *ast.RangeStmt:
			if x.Tok == token.DEFINE {
				if x.Key != nil {
					add("range", x.Key)
				}
				if x.Value != nil {
					add("range", x.Value)
				}
			}
		case *ast.ValueSpec:
			for _, nm := range x.Names {
				add("var", nm)
			}
		}
		return true
	})
	sort.Slice(defs, func(i, j int) bool { return defs[i].pos < defs[j].pos })
	out := make([]string, len(defs))
	for i, d := range defs {
		out[i] = d.text
	}
	return out
}

func splitDef(s string) (kind, name string) {
	for i := 0; i < len(s); i++ {
		if s[i] == ':' {
			return s[:i], s[i+1:]
		}
	}
	return "", s
}

// renamedLocal maps a name recorded for fn to the name now defined at the same position, when the body's
// definition kinds are unchanged (a pure renaming).  "" when no such mapping exists.
func (p *Program) renamedLocal(fn *ssa.Function, name string) string {
	if p.locals == nil {
		return ""
	}
	key := p.keyOfFn[fn]
	if key == "" && fn.Origin() != nil {
		key = p.keyOfFn[fn.Origin()]
	}
	old := p.locals[key]
	cur := localDefs(fn)
	if len(old) == 0 || len(old) != len(cur) {
		return ""
	}
	for i := range old {
		ko, _ := splitDef(old[i])
		kc, _ := splitDef(cur[i])
		if ko != kc {
			return ""
		}
	}
	// the same old name may be defined several times (shadowing): every occurrence must map to one new name
	alt := ""
	for i := range old {
		_, no := splitDef(old[i])
		_, nc := splitDef(cur[i])
		if no == name {
			if alt != "" && alt != nc {
				return ""
			}
			alt = nc
		}
	}
	if alt == name {
		return ""
	}
	return alt
}
