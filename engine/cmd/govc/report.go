package main

import (
	"encoding/json"
	"fmt"
	"os"
	"path/filepath"
	"sort"
	"strings"
)

type KnownFinding struct {
	Property   string `json:"property"`
	Obligation string `json:"obligation"`
	What       string `json:"what"`
	Witness    string `json:"witness,omitempty"`
	Status     string `json:"status"` // open | fixed
	Commit     string `json:"commit,omitempty"`
	Guard      string `json:"guard,omitempty"` // formula over the function's inputs delimiting the failing region
}

type knownFile struct {
	Findings []KnownFinding `json:"findings"`
}

func loadKnown(verif string) []KnownFinding {
	data, err := os.ReadFile(filepath.Join(verif, "known_findings.json"))
	if err != nil {
		return nil
	}
	var kf knownFile
	if json.Unmarshal(data, &kf) != nil {
		return nil
	}
	return kf.Findings
}

// belongs decides whether an obligation of a unit counts for a property.
func belongs(prop string, u *UnitResult, o *Obligation, clauseProps []string) bool {
	if prop == "" {
		return true
	}
	has := func(ps []string, q string) bool {
		for _, x := range ps {
			if x == q {
				return true
			}
		}
		return false
	}
	if !has(u.Props, prop) {
		return false
	}
	if len(clauseProps) > 0 {
		return has(clauseProps, prop)
	}
	if u.fc != nil && u.fc.ClaimOnly {
		// "claimonly" unit: only clauses tagged with a property (and must-use obligations) are claimed; the unit's
		// other obligations are generated and solved but belong to no property
		return strings.HasPrefix(o.Kind, "mustuse") && prop == "C14"
	}
	if u.fc != nil && u.fc.Unclaimed != nil {
		if _, un := u.fc.Unclaimed[o.Kind]; un {
			return false
		}
	}
	if strings.HasPrefix(o.Kind, "mustuse") {
		// an ignored short-read signal matters to the truncation property only
		return prop == "C14"
	}
	if prop == "C14" && u.fc != nil && u.fc.FrameOnly {
		return false
	}
	isFrame := strings.HasPrefix(o.Kind, "frame.")
	if has(u.Props, "C01") && len(u.Props) > 1 {
		if isFrame {
			return prop == "C01"
		}
		// clauses about freshness / allocation are what the frame proofs rest on: they serve C01 too
		aboutFreshness := o.clause != nil && (strings.Contains(o.clause.Src, "fresh(") || strings.Contains(o.clause.Src, "allocated("))
		if prop == "C01" {
			return aboutFreshness
		}
	}
	return true
}

type oblOut struct {
	Name    string  `json:"name"`
	Kind    string  `json:"kind"`
	Result  string  `json:"result"`
	Solver  string  `json:"solver"`
	Seconds float64 `json:"seconds"`
	Bytes   int     `json:"smt_bytes"`
	Pos     string  `json:"pos,omitempty"`
}

func report(o *options, p *Program, units []*UnitResult, loadSecs, genSecs, solveSecs, wall float64) int {
	known := loadKnown(o.verif)
	exit := 0
	var lines []string
	var all []oblOut
	obligations, discharged, vacuityChecks := 0, 0, 0
	wins := map[string]int{}
	var maxSecs, sumSecs float64
	var funcsUnder, pureFuncs, trusted []string
	abstracted := map[string]bool{}
	assumed := map[string]bool{}
	pureUsed := map[string]bool{}
	violations := 0
	knownHits := []string{}
	undecided := []string{}
	replayDir := filepath.Join(o.verif, "replay", o.prop)
	if o.noEvidence {
		replayDir = filepath.Join(os.TempDir(), "govc-selftest-replay", o.prop)
	}
	os.MkdirAll(replayDir, 0o755)

	clauseProps := func(u *UnitResult, ob *Obligation) []string { return ob.props }

	for _, u := range units {
		if u.Trusted {
			trusted = append(trusted, u.Name)
			continue
		}
		if u.Err != "" && (u.Stale || strings.HasPrefix(u.Err, "unsupported:")) && o.prop != "" {
			// the contract no longer matches the body (a clause names something the code does not have): the
			// verifier cannot accept the function, which is reported as a failed obligation, never as a pass
			name := u.Name + "#contract-matches-body"
			if !u.Stale {
				// the body now uses a construct the verifier cannot translate (every unit is translatable on the
				// pinned tree): the function is not accepted, which is reported, never passed over
				name = u.Name + "#verifier-accepts-body"
			}
			path := filepath.Join(replayDir, sanitize(name)+".json")
			rep := map[string]any{
				"property": o.prop, "obligation": name, "kind": "contract-stale", "unit": u.Name,
				"result":        "not-accepted",
				"solver_output": u.Err,
				"note": "the obligations of this function were discharged on the pinned tree; its body changed so that the contract's loop invariants / clauses " +
					"can no longer be attached, and no obligation of the unit is discharged now",
				"failing_input_found": false,
			}
			data, _ := json.MarshalIndent(rep, "", " ")
			os.WriteFile(path, data, 0o644)
			lines = append(lines, fmt.Sprintf("VIOLATION property=%s replay=%s obligation=%s result=not-accepted (%s) no-failing-input-found", o.prop, path, name, u.Err))
			violations++
			obligations++
			exit = 1
			all = append(all, oblOut{name, "contract-stale", "not-accepted", "", 0, 0, ""})
			if u.VC == nil {
				continue
			}
		} else if u.Err != "" {
			undecided = append(undecided, fmt.Sprintf("%s: %s", u.Name, u.Err))
			if u.VC == nil {
				continue
			}
			// obligations generated before the unit was abandoned still count
		}
		if u.Kind == "func" {
			funcsUnder = append(funcsUnder, u.Name)
			if u.Pure {
				pureFuncs = append(pureFuncs, u.Name)
			}
		}
		for k := range u.VC.abstracted {
			abstracted[k] = true
		}
		for k := range u.VC.assumedStd {
			assumed[k] = true
		}
		if u.fc != nil {
			for k, why := range u.fc.Unclaimed {
				assumed[fmt.Sprintf("not claimed: %s obligations of %s (%s)", k, u.Name, why)] = true
			}
			for _, rq := range u.fc.Requires {
				if u.fc.FrameOnly || !hasString(u.Props, o.prop) {
					continue
				}
				assumed[fmt.Sprintf("precondition of %s assumed at entry: %s", u.Name, rq.Src)] = true
			}
		}
		for k := range u.VC.pureUsed {
			pureUsed[k] = true
		}
		for _, ob := range u.VC.obls {
			if ob.Vacuity {
				if ob.Result == "skipped" {
					continue
				}
				vacuityChecks++
				if o.verbose && ob.Seconds > 3 {
					fmt.Printf("  slow vacuity probe %.1fs %s %s\n", ob.Seconds, ob.Result, ob.Name)
				}
				if ob.Result == "unsat" {
					if u.Pure && ob.Kind == "vacuity.return" {
						// a pure function with a branch that the global assumptions exclude (NaN tests under the
						// finite-values assumption): fine as long as some return is reachable
						someReturn := false
						for _, o2 := range u.VC.obls {
							if o2.Vacuity && o2.Kind == "vacuity.return" && o2.Result != "unsat" {
								someReturn = true
							}
						}
						if someReturn {
							continue
						}
					}
					undecided = append(undecided, fmt.Sprintf("%s: contradictory context (vacuity probe %s is unsat)", u.Name, ob.Name))
				}
				continue
			}
			if ob.knownProbe != nil {
				if !belongs(o.prop, u, ob, clauseProps(u, ob)) || ob.knownProbe.Property != o.prop {
					continue
				}
				if ob.Result == "unsat" {
					fmt.Printf("NOTE: known finding no longer reproduces: property=%s %s (%s)\n", o.prop, ob.knownProbe.What, ob.Name)
				} else {
					knownHits = append(knownHits, fmt.Sprintf("KNOWN-FINDING: property=%s %s (%s, inside guard: %s)", o.prop, ob.knownProbe.What, ob.knownProbe.Obligation, ob.knownProbe.Guard))
				}
				continue
			}
			if !belongs(o.prop, u, ob, clauseProps(u, ob)) {
				if o.verbose && ob.Seconds > 3 {
					fmt.Printf("  slow (not counted for %s) %.1fs %s %s\n", o.prop, ob.Seconds, ob.Result, ob.Name)
				}
				continue
			}
			obligations++
			all = append(all, oblOut{ob.Name, ob.Kind, ob.Result, ob.Solver, ob.Seconds, ob.SMTBytes, ob.Pos})
			sumSecs += ob.Seconds
			if ob.Seconds > maxSecs {
				maxSecs = ob.Seconds
			}
			if ob.Result == "unsat" {
				discharged++
				wins[ob.Solver]++
				continue
			}
			// failed obligation
			kf := matchKnown(known, o.prop, ob.Name)
			if kf != nil && kf.Guard != "" {
				// a guarded finding covers only inputs inside its guard (the @inside-known-guard probe); this is the
				// same obligation failing OUTSIDE the guard: a different violation, reported
				kf = nil
			}
			if kf != nil {
				knownHits = append(knownHits, fmt.Sprintf("KNOWN-FINDING: property=%s %s (%s)", o.prop, kf.What, ob.Name))
				obligations-- // guarded: not counted as a claimed obligation
				all = all[:len(all)-1]
				continue
			}
			violations++
			rp := filepath.Join(replayDir, sanitize(ob.Name)+".json")
			suffix := writeReplay(o, p, u, ob, rp)
			lines = append(lines, fmt.Sprintf("VIOLATION property=%s replay=%s obligation=%s result=%s%s", o.prop, rp, ob.Name, ob.Result, suffix))
			exit = 1
		}
	}
	sort.Strings(knownHits)
	for _, l := range knownHits {
		fmt.Println(l)
	}
	for _, l := range lines {
		fmt.Println(l)
	}
	if len(undecided) > 0 && exit == 0 {
		exit = 2
	}
	for _, uline := range undecided {
		fmt.Printf("UNDECIDED property=%s %s\n", o.prop, uline)
	}
	// registry: every registered obligation must have been generated
	regMissing := checkRegistry(o, all)
	if len(regMissing) > 0 {
		for _, m := range regMissing {
			fmt.Printf("UNDECIDED property=%s registered obligation not generated: %s\n", o.prop, m)
		}
		if exit == 0 {
			exit = 2
		}
	}
	if obligations == 0 && exit == 0 {
		fmt.Printf("UNDECIDED property=%s zero obligations generated\n", o.prop)
		exit = 2
	}
	fmt.Printf("govc property=%s tier=%s units=%d obligations=%d discharged=%d violations=%d known=%d vacuity_probes=%d load=%.1fs gen=%.1fs solve=%.1fs wall=%.1fs\n",
		o.prop, o.tier, len(units), obligations, discharged, violations, len(knownHits), vacuityChecks, loadSecs, genSecs, solveSecs, wall)
	if o.verbose {
		for _, a := range all {
			fmt.Printf("  %-8s %6.2fs %-8s %s\n", a.Result, a.Seconds, a.Solver, a.Name)
		}
	}
	if o.prop != "" && o.unit == "" && !o.noEvidence {
		writeEvidence(o, p, all, obligations, discharged, violations, wins, sumSecs, maxSecs, funcsUnder, pureFuncs, trusted,
			keys(abstracted), keys(assumed), keys(pureUsed), knownHits, undecided, vacuityChecks, wall)
	}
	return exit
}

func keys(m map[string]bool) []string {
	var out []string
	for k := range m {
		out = append(out, k)
	}
	sort.Strings(out)
	return out
}

func matchKnown(known []KnownFinding, prop, obl string) *KnownFinding {
	for i := range known {
		k := &known[i]
		if k.Status == "open" && k.Property == prop && k.Obligation == obl {
			return k
		}
	}
	return nil
}

type registry map[string][]string

func registryPath(o *options) string { return filepath.Join(o.verif, "contracts", "registry.json") }

func checkRegistry(o *options, all []oblOut) []string {
	if o.prop == "" || o.unit != "" {
		return nil
	}
	reg := registry{}
	if data, err := os.ReadFile(registryPath(o)); err == nil {
		_ = json.Unmarshal(data, &reg)
	}
	have := map[string]bool{}
	var names []string
	for _, a := range all {
		have[a.Name] = true
		if registrable(a.Kind) && !strings.HasSuffix(a.Name, "]") {
			// positional duplicates ("…inv1[11]") move when a clause is added; only labelled names are pinned
			names = append(names, a.Name)
		}
	}
	if o.updateRegistry {
		sort.Strings(names)
		reg[o.prop] = names
		data, _ := json.MarshalIndent(reg, "", " ")
		os.MkdirAll(filepath.Dir(registryPath(o)), 0o755)
		os.WriteFile(registryPath(o), append(data, '\n'), 0o644)
		return nil
	}
	known := loadKnown(o.verif)
	var missing []string
	for _, n := range reg[o.prop] {
		if !have[n] && matchKnown(known, o.prop, n) == nil {
			missing = append(missing, n)
		}
	}
	return missing
}

func registrable(kind string) bool {
	// labelled obligations that come from contract clauses; call-site and fork/join obligations depend on the
	// shape of the body and may legitimately disappear with it
	return kind == "ensures" || kind == "lemma" || strings.HasPrefix(kind, "invariant.") || kind == "decreases" || kind == "loop.step" ||
		kind == "nopanic" || strings.HasPrefix(kind, "guard")
}

func writeReplay(o *options, p *Program, u *UnitResult, ob *Obligation, path string) string {
	suffix := " no-failing-input-found"
	rep := map[string]any{
		"property":      o.prop,
		"obligation":    ob.Name,
		"kind":          ob.Kind,
		"unit":          u.Name,
		"position":      ob.Pos,
		"result":        ob.Result,
		"solver":        ob.Solver,
		"goal":          ob.Goal,
		"solver_output": firstLines(ob.Model, 200),
		"smt":           u.VC.render(ob, true),
	}
	if ob.Result == "sat" {
		if rr := tryReplay(o, p, u, ob); rr != nil {
			rep["replay"] = rr
			if rr.Reproduced {
				suffix = ""
			}
		}
	}
	rep["failing_input_found"] = suffix == ""
	data, _ := json.MarshalIndent(rep, "", " ")
	os.WriteFile(path, data, 0o644)
	return suffix
}

func writeEvidence(o *options, p *Program, all []oblOut, obligations, discharged, violations int, wins map[string]int, sumSecs, maxSecs float64,
	funcs, pure, trusted, abstracted, assumed, pureUsed, knownHits, undecided []string, vacuity int, wall float64) {
	sort.Strings(funcs)
	var samples []oblOut
	for i, a := range all {
		if i%((len(all)/8)+1) == 0 {
			samples = append(samples, a)
		}
	}
	trustedBase := []string{
		"go/types + go/ssa (golang.org/x/tools v0.29.0) represent the source; gc compiles the same semantics",
		"govc SSA->SMT translation (this engine)",
		"z3 4.8.12, z3 5.1.0, cvc5 1.0.3 (an obligation counts as discharged when one of them answers unsat)",
		"machine int/int64/uint64 treated as mathematical integers (no overflow); narrower integers exact",
		"float64/float32 treated as real numbers; float32 rounding is an uninterpreted idempotent function; inputs finite",
	}
	for _, t := range trusted {
		trustedBase = append(trustedBase, "trusted contract (body not verified): "+t)
	}
	cov := map[string]any{
		"obligations":              obligations,
		"discharged":               discharged,
		"checker_cmd":              fmt.Sprintf("/verif/bin/govc -prop %s -tier %s", o.prop, o.tier),
		"trusted_base":             trustedBase,
		"functions_under_contract": funcs,
		"pure_functions_verified":  pure,
		"pure_functions_inlined":   pureUsed,
		"backend_wins":             wins,
		"solver_seconds_sum":       round2(sumSecs),
		"solver_seconds_max":       round2(maxSecs),
		"abstracted":               abstracted,
		"assumed_contracts":        assumed,
		"known_findings":           knownHits,
		"undecided":                undecided,
		"vacuity_probes":           vacuity,
		"samples":                  samples,
		"all_obligations":          all,
	}
	ev := map[string]any{
		"property_id": o.prop,
		"tier":        o.tier,
		"seed":        o.seed,
		"level":       "proof",
		"coverage":    cov,
		"assumptions": append(append([]string{}, trustedBase...), assumed...),
		"wall_s":      round2(wall),
		"violations":  violations,
	}
	data, _ := json.MarshalIndent(ev, "", " ")
	os.MkdirAll(filepath.Join(o.verif, "evidence"), 0o755)
	os.WriteFile(filepath.Join(o.verif, "evidence", o.prop+".json"), append(data, '\n'), 0o644)
}

func round2(f float64) float64 { return float64(int(f*100+0.5)) / 100 }

func hasString(xs []string, x string) bool {
	for _, y := range xs {
		if y == x {
			return true
		}
	}
	return false
}
