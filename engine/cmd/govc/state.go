package main

// Symbolic state: local cells, heap arrays, allocation counter; addresses.

import (
	"fmt"
	"go/types"
	"sort"
	"strings"

	"golang.org/x/tools/go/ssa"
)

type state struct {
	reach string
	cells map[*ssa.Alloc]T
	heap  map[string]string
	epoch int
	next  string
}

func (s *state) clone() *state {
	n := &state{reach: s.reach, epoch: s.epoch, next: s.next,
		cells: make(map[*ssa.Alloc]T, len(s.cells)), heap: make(map[string]string, len(s.heap))}
	for k, v := range s.cells {
		n.cells[k] = v
	}
	for k, v := range s.heap {
		n.heap[k] = v
	}
	return n
}

func (vc *VC) heapGet(st *state, name string) string {
	vc.heapReads++
	return vc.heapGetQuiet(st, name)
}

// heapGetQuiet: same, without counting as a read by the program (state merging).
func (vc *VC) heapGetQuiet(st *state, name string) string {
	if v, ok := st.heap[name]; ok {
		return v
	}
	srt, ok := vc.heapNames[name]
	if !ok {
		bail("unregistered heap array %s", name)
	}
	init := fmt.Sprintf("%s!e%d", name, st.epoch)
	if !vc.declSeen["heapinit:"+init] {
		vc.decl("heapinit:"+init, fmt.Sprintf("(declare-const %s %s)", init, srt))
		if inv := vc.ghostInvariant(name, init); inv != "" {
			vc.decl("heapinv:"+init, "(assert "+inv+")")
		}
	}
	return init
}

func (vc *VC) heapSet(st *state, name, term string) {
	// Backing-array heaps are named by declared constants (not macros) so that they can appear in
	// quantifier patterns; everything else is a definition.
	if (strings.HasPrefix(name, "Arr_") || strings.HasPrefix(name, "Dom_") || strings.HasPrefix(name, "Val_")) && len(vc.capStack) == 0 {
		n := vc.fresh(name)
		vc.emit(fmt.Sprintf("(declare-const %s %s)", n, vc.heapNames[name]))
		vc.emit(fmt.Sprintf("(assert (= %s %s))", n, term))
		st.heap[name] = n
		return
	}
	st.heap[name] = vc.define(name, vc.heapNames[name], term)
}

// elemSortOfArr returns the element sort of a heap array name Arr_<tag>.
func (vc *VC) elemSortOfArr(name string) (Sort, bool) {
	if !strings.HasPrefix(name, "Arr_") {
		return "", false
	}
	srt := vc.heapNames[name] // (Array Int (Array Int E))
	const pre = "(Array Int (Array Int "
	if !strings.HasPrefix(srt, pre) {
		return "", false
	}
	return srt[len(pre) : len(srt)-2], true
}

// heapStoreRef replaces the backing array at reference ref and states, in terms of the element
// function at(), that every other backing array is unchanged (E-matching friendly frame).
func (vc *VC) heapStoreRef(st *state, name, ref, inner string) (oldH, newH string) {
	oldH = vc.heapGet(st, name)
	vc.heapSet(st, name, fmt.Sprintf("(store %s %s %s)", oldH, ref, inner))
	newH = st.heap[name]
	vc.atOthersUnchanged(name, newH, oldH, fmt.Sprintf("(not (= (s_arr s) %s))", ref))
	return
}

// atOthersUnchanged: forall s j :: cond(s) ==> at(newH, s, j) == at(oldH, s, j)
func (vc *VC) atOthersUnchanged(name, newH, oldH, cond string) {
	es, ok := vc.elemSortOfArr(name)
	if !ok || len(vc.capStack) > 0 {
		return
	}
	an := vc.at(es, newH, "s", "j")
	ao := vc.at(es, oldH, "s", "j")
	vc.emit(fmt.Sprintf("(assert (forall ((s Slice) (j Int)) (! (=> %s (= %s %s)) :pattern (%s))))", cond, an, ao, an))
}

// havocAll forgets everything about the heap (call without contract).
func (vc *VC) havocAll(st *state) {
	held, hasHeld := st.heap["G_held"]
	if _, reg := vc.heapNames["G_held"]; reg && !hasHeld {
		held, hasHeld = vc.heapGetQuiet(st, "G_held"), true
	}
	vc.epochCtr++
	st.epoch = vc.epochCtr
	st.heap = map[string]string{}
	if hasHeld {
		// locks held by the running goroutine stay held across a call (assumption: callees do not release
		// a mutex their caller acquired)
		st.heap["G_held"] = held
	}
	n := vc.declareConst("next", "Int")
	vc.assume("true", fmt.Sprintf("(>= %s %s)", n, st.next))
	st.next = n
}

// alloc returns a fresh reference.
func (vc *VC) alloc(st *state) string {
	r := vc.define("ref", "Int", st.next)
	st.next = vc.define("next", "Int", fmt.Sprintf("(+ %s 1)", r))
	return r
}

// ---- addresses --------------------------------------------------------------------------------

type addrKind int

const (
	aCell   addrKind = iota // local alloc cell
	aHeap                   // Heap_<sort>[ref]
	aArrPtr                 // pointer to array object stored in Arr_<elem>[ref] (whole inner array)
	aField                  // field of base
	aIndex                  // element of array-valued base
	aElem                   // Arr_<elem>[arr][pos]
	aGlobal
)

type addr struct {
	kind  addrKind
	alloc *ssa.Alloc
	ref   string // aHeap/aArrPtr/aElem: reference term
	pos   string // aElem: absolute position; aIndex: index
	base  *addr
	field int
	typ   types.Type // type of the addressed location
	glob  *ssa.Global
	sl    string // aElem through a slice: the slice term and the index
	idx   string
}

func (fr *frame) load(a *addr, st *state) T {
	vc := fr.vc
	switch a.kind {
	case aCell:
		v, ok := st.cells[a.alloc]
		if !ok {
			bail("load from unknown cell %s", a.alloc.Name())
		}
		return v
	case aHeap:
		s := vc.sortOf(a.typ)
		h := vc.heapPtr(s)
		return T{fmt.Sprintf("(select %s %s)", vc.heapGet(st, h), a.ref), s, a.typ}
	case aArrPtr:
		arr := unalias(a.typ).Underlying().(*types.Array)
		es := vc.sortOf(arr.Elem())
		h := vc.heapArr(es)
		return T{fmt.Sprintf("(select %s %s)", vc.heapGet(st, h), a.ref), vc.sortOf(a.typ), a.typ}
	case aElem:
		s := vc.sortOf(a.typ)
		h := vc.heapArr(s)
		if a.sl != "" {
			return T{vc.at(s, vc.heapGet(st, h), a.sl, a.idx), s, a.typ}
		}
		return T{fmt.Sprintf("(select (select %s %s) %s)", vc.heapGet(st, h), a.ref, a.pos), s, a.typ}
	case aField:
		b := fr.load(a.base, st)
		return vc.getField(b, a.field)
	case aIndex:
		b := fr.load(a.base, st)
		return T{fmt.Sprintf("(select %s %s)", b.S, a.pos), vc.sortOf(a.typ), a.typ}
	case aGlobal:
		s := vc.sortOf(a.typ)
		n := "Glob_" + sanitize(a.glob.Pkg.Pkg.Name()+"."+a.glob.Name())
		vc.regHeap(n, s)
		v := T{vc.heapGet(st, n), s, a.typ}
		if vc.P.globalIsConstErr(a.glob) {
			// package-level error value: initialised once by errors.New / fmt.Errorf and never reassigned
			vc.assume(st.reach, fmt.Sprintf("(and (> %s 0) (= %s %s))", v.S, v.S, vc.P.strLit("globalerr:"+a.glob.String())))
			vc.assumedStd["package-level error variables initialised by errors.New and never reassigned are distinct non-nil constants"] = true
		}
		return v
	}
	bail("load: bad address")
	return T{}
}

// rootRef returns the heap reference an address lives in ("" for local cells / globals).
func (a *addr) rootRef() (string, bool) {
	switch a.kind {
	case aCell:
		return "", false
	case aGlobal:
		return "", true
	case aHeap, aArrPtr, aElem:
		return a.ref, true
	case aField, aIndex:
		return a.base.rootRef()
	}
	return "", false
}

func (fr *frame) store(a *addr, v T, st *state, pos string) {
	vc := fr.vc
	switch a.kind {
	case aCell:
		st.cells[a.alloc] = T{vc.define(fr.pfx+a.alloc.Name()+"_cell", v.Sort, v.S), v.Sort, a.typ}
	case aHeap:
		s := vc.sortOf(a.typ)
		h := vc.heapPtr(s)
		// a store through the nil pointer cannot happen (it panics first)
		fr.frameCheck("frame.store", a.ref, st, pos, fmt.Sprintf("(= %s 0)", a.ref))
		vc.heapSet(st, h, fmt.Sprintf("(store %s %s %s)", vc.heapGet(st, h), a.ref, v.S))
	case aArrPtr:
		arr := unalias(a.typ).Underlying().(*types.Array)
		es := vc.sortOf(arr.Elem())
		h := vc.heapArr(es)
		fr.frameCheck("frame.store", a.ref, st, pos)
		vc.heapStoreRef(st, h, a.ref, v.S)
	case aElem:
		s := vc.sortOf(a.typ)
		h := vc.heapArr(s)
		if a.sl != "" {
			// a store through a slice without capacity cannot happen (the index check panics first)
			fr.frameCheck("frame.store", a.ref, st, pos, fmt.Sprintf("(= (s_cap %s) 0)", a.sl))
		} else {
			fr.frameCheck("frame.store", a.ref, st, pos)
		}
		cur := vc.heapGet(st, h)
		vc.heapSet(st, h, fmt.Sprintf("(store %s %s (store (select %s %s) %s %s))", cur, a.ref, cur, a.ref, a.pos, v.S))
		if len(vc.capStack) == 0 {
			// complete description of the new heap in terms of at(): exactly one position changed
			newH := st.heap[h]
			ref := vc.define("st_ref", "Int", a.ref)
			pos := vc.define("st_pos", "Int", a.pos)
			an := vc.at(s, newH, "s", "j")
			ao := vc.at(s, cur, "s", "j")
			vc.emit(fmt.Sprintf("(assert (forall ((s Slice) (j Int)) (! (= %s (ite (and (= (s_arr s) %s) (= (+ (s_off s) j) %s)) %s %s)) :pattern (%s))))", an, ref, pos, v.S, ao, an))
		}
	case aField:
		b := fr.load(a.base, st)
		fr.store(a.base, vc.setField(b, a.field, v), st, pos)
	case aIndex:
		b := fr.load(a.base, st)
		fr.store(a.base, T{fmt.Sprintf("(store %s %s %s)", b.S, a.pos, v.S), b.Sort, b.GT}, st, pos)
	case aGlobal:
		s := vc.sortOf(a.typ)
		n := "Glob_" + sanitize(a.glob.Pkg.Pkg.Name()+"."+a.glob.Name())
		vc.regHeap(n, s)
		if !fr.inline || true {
			fr.obligeHere("frame.global", "", st, "false", pos)
		}
		vc.heapSet(st, n, v.S)
	default:
		bail("store: bad address")
	}
}

func sortedHeapKeys(m map[string]string) []string {
	var ks []string
	for k := range m {
		ks = append(ks, k)
	}
	sort.Strings(ks)
	return ks
}

// ghostInvariant: system invariants of the ghost I/O state, assumed for every unconstrained version:
// a reader never consumed more than its stream holds, counters are non-negative.
func (vc *VC) ghostInvariant(name, term string) string {
	switch name {
	case "G_consumed":
		vc.declStream()
		return fmt.Sprintf("(forall ((r Int)) (! (and (<= 0 (select %s r)) (<= (select %s r) (io.total r))) :pattern ((select %s r))))", term, term, term)
	default:
		if strings.HasPrefix(name, "Dom_") {
			// the nil map (reference 0) has no keys
			srt := vc.heapNames[name] // (Array Int (Array K Bool))
			inner := srt[len("(Array Int ") : len(srt)-1]
			ks := strings.TrimSuffix(strings.TrimPrefix(inner, "(Array "), " Bool)")
			mh := vc.mhas(ks, term, "0", "k")
			return fmt.Sprintf("(and (= (select %s 0) ((as const %s) false)) (forall ((k %s)) (! (not %s) :pattern (%s))))", term, inner, ks, mh, mh)
		}
	case "G_written":
		return fmt.Sprintf("(forall ((r Int)) (! (<= 0 (select %s r)) :pattern ((select %s r))))", term, term)
	}
	return ""
}
