package main

// Builtins, slices, maps, interfaces, assumed library specifications.

import (
	"fmt"
	"go/types"
	"math/big"
	"strings"

	"golang.org/x/tools/go/ssa"
)

type bigInt = big.Int

var bigOne = big.NewInt(1)

func newBig(v int64) *big.Int { return big.NewInt(v) }

func stdName(fn *ssa.Function) string {
	if fn.Origin() != nil {
		return fn.Origin().String()
	}
	return fn.String()
}

type stdSpec func(fr *frame, c *ssa.CallCommon, args []T, st *state, pos string) []T

var stdSpecs = map[string]stdSpec{}
var stdWrites = map[string][]string{}

func real1(f func(a string) string) stdSpec {
	return func(fr *frame, c *ssa.CallCommon, args []T, st *state, pos string) []T {
		return []T{{f(args[0].S), "Real", types.Typ[types.Float64]}}
	}
}

func uninterp1(name string, axioms ...string) stdSpec {
	return func(fr *frame, c *ssa.CallCommon, args []T, st *state, pos string) []T {
		fr.vc.decl(name, fmt.Sprintf("(declare-fun %s (Real) Real)", name))
		for i, ax := range axioms {
			fr.vc.decl(fmt.Sprintf("%s_ax%d", name, i), ax)
		}
		fr.vc.assumedStd["math function "+name+" (uninterpreted"+map[bool]string{true: " + listed axioms", false: ""}[len(axioms) > 0]+")"] = true
		return []T{{fmt.Sprintf("(%s %s)", name, args[0].S), "Real", types.Typ[types.Float64]}}
	}
}

func (vc *VC) sqrtTerm(x string, reach string) string {
	vc.decl("sqrt_", "(declare-fun sqrt_ (Real) Real)")
	vc.assumedStd["math.Sqrt: x>=0 => r>=0 && r*r==x (real arithmetic)"] = true
	r := fmt.Sprintf("(sqrt_ %s)", x)
	fact := fmt.Sprintf("(=> (>= %s 0.0) (and (>= %s 0.0) (= (* %s %s) %s)))", x, r, r, r, x)
	if len(vc.capStack) == 0 {
		// droppable: a racing solver instance may treat sqrt as an uninterpreted function
		vc.assumeAxiomInstance(implies(reach, fact))
	} else {
		vc.assume(reach, fact)
	}
	return r
}

func init() {
	for k, v := range map[string]stdSpec{
		"math.Sqrt": func(fr *frame, c *ssa.CallCommon, args []T, st *state, pos string) []T {
			x := fr.vc.define("sqarg", "Real", args[0].S)
			return []T{{fr.vc.sqrtTerm(x, st.reach), "Real", types.Typ[types.Float64]}}
		},
		"math.Pow": func(fr *frame, c *ssa.CallCommon, args []T, st *state, pos string) []T {
			if args[1].S == "2.0" {
				return []T{{fmt.Sprintf("(* %s %s)", args[0].S, args[0].S), "Real", types.Typ[types.Float64]}}
			}
			if args[1].S == "3.0" {
				return []T{{fmt.Sprintf("(* %s %s %s)", args[0].S, args[0].S, args[0].S), "Real", types.Typ[types.Float64]}}
			}
			fr.vc.decl("math.Pow", "(declare-fun math.Pow (Real Real) Real)")
			fr.vc.assumedStd["math.Pow (uninterpreted except exponent 2, 3)"] = true
			return []T{{fmt.Sprintf("(math.Pow %s %s)", args[0].S, args[1].S), "Real", types.Typ[types.Float64]}}
		},
		"math.Abs": real1(func(a string) string { return "(rabs " + a + ")" }),
		"math.Min": func(fr *frame, c *ssa.CallCommon, args []T, st *state, pos string) []T {
			return []T{{fmt.Sprintf("(rmin %s %s)", args[0].S, args[1].S), "Real", types.Typ[types.Float64]}}
		},
		"math.Max": func(fr *frame, c *ssa.CallCommon, args []T, st *state, pos string) []T {
			return []T{{fmt.Sprintf("(rmax %s %s)", args[0].S, args[1].S), "Real", types.Typ[types.Float64]}}
		},
		"math.Floor": real1(func(a string) string { return "(to_real (to_int " + a + "))" }),
		"math.Ceil":  real1(func(a string) string { return "(- (to_real (to_int (- " + a + "))))" }),
		"math.Trunc": real1(func(a string) string { return "(to_real (rtrunc " + a + "))" }),
		"math.Round": real1(func(a string) string {
			return "(ite (>= " + a + " 0.0) (to_real (to_int (+ " + a + " 0.5))) (- (to_real (to_int (+ (- " + a + ") 0.5)))))"
		}),
		"math.IsNaN": func(fr *frame, c *ssa.CallCommon, args []T, st *state, pos string) []T {
			fr.vc.assumedStd["math.IsNaN == false (finite-values assumption)"] = true
			return []T{{"false", "Bool", types.Typ[types.Bool]}}
		},
		"math.IsInf": func(fr *frame, c *ssa.CallCommon, args []T, st *state, pos string) []T {
			fr.vc.assumedStd["math.IsInf == false (finite-values assumption)"] = true
			return []T{{"false", "Bool", types.Typ[types.Bool]}}
		},
		"math.Inf": func(fr *frame, c *ssa.CallCommon, args []T, st *state, pos string) []T {
			fr.vc.decl("posInf", "(declare-const posInf Real)")
			fr.vc.decl("negInf", "(declare-const negInf Real)")
			fr.vc.decl("inf_order", "(assert (< negInf posInf))")
			fr.vc.assumedStd["math.Inf(+-1): two constants; every finite value lies strictly between them (assumed where a contract says finite)"] = true
			return []T{{fmt.Sprintf("(ite (>= %s 0) posInf negInf)", args[0].S), "Real", types.Typ[types.Float64]}}
		},
		"math.NaN": func(fr *frame, c *ssa.CallCommon, args []T, st *state, pos string) []T {
			fr.vc.decl("math.NaNval", "(declare-const math.NaNval Real)")
			fr.vc.assumedStd["math.NaN(): an unspecified constant (NaN does not exist over the reals)"] = true
			return []T{{"math.NaNval", "Real", types.Typ[types.Float64]}}
		},
		"math.Sin":  uninterp1("math.Sin"),
		"math.Cos":  uninterp1("math.Cos"),
		"math.Tan":  uninterp1("math.Tan"),
		"math.Acos": uninterp1("math.Acos"),
		"math.Asin": uninterp1("math.Asin"),
		"math.Atan": uninterp1("math.Atan"),
		"math.Exp": uninterp1("math.Exp",
			"(assert (forall ((x Real)) (! (> (math.Exp x) 0.0) :pattern ((math.Exp x)))))",
			"(assert (forall ((x Real)) (! (= (math.Log (math.Exp x)) x) :pattern ((math.Exp x)))))"),
		"math.Log": uninterp1("math.Log",
			"(assert (forall ((x Real)) (! (=> (> x 0.0) (= (math.Exp (math.Log x)) x)) :pattern ((math.Log x)))))"),
		"runtime.NumCPU": func(fr *frame, c *ssa.CallCommon, args []T, st *state, pos string) []T {
			n := fr.vc.declareConst("numcpu", "Int")
			fr.vc.assume("true", fmt.Sprintf("(>= %s 1)", n))
			fr.vc.assumedStd["runtime.NumCPU() >= 1"] = true
			return []T{{n, "Int", types.Typ[types.Int]}}
		},
		"(*sync.WaitGroup).Add":  noop("sync.WaitGroup: Add/Done/Wait are the join point of the fork/join rule"),
		"(*sync.WaitGroup).Done": noop("sync.WaitGroup: Add/Done/Wait are the join point of the fork/join rule"),
		"(*sync.WaitGroup).Wait": noop("sync.WaitGroup: Add/Done/Wait are the join point of the fork/join rule"),
		"fmt.Errorf":             nonNilErr,
		"errors.New":             nonNilErr,
		"fmt.Sprintf":            pureStr("fmt.Sprintf"),
		"fmt.Sprint":             pureStr("fmt.Sprint"),
		"strings.TrimSpace":      pureStrFn("strings.TrimSpace"),
		"strings.ToLower":        pureStrFn("strings.ToLower"),
	} {
		stdSpecs[k] = v
	}
	// Exp needs Log declared for its axiom and vice versa
	exp := stdSpecs["math.Exp"]
	log := stdSpecs["math.Log"]
	stdSpecs["math.Exp"] = func(fr *frame, c *ssa.CallCommon, args []T, st *state, pos string) []T {
		fr.vc.decl("math.Log", "(declare-fun math.Log (Real) Real)")
		fr.vc.decl("math.Exp", "(declare-fun math.Exp (Real) Real)")
		return exp(fr, c, args, st, pos)
	}
	stdSpecs["math.Log"] = func(fr *frame, c *ssa.CallCommon, args []T, st *state, pos string) []T {
		fr.vc.decl("math.Log", "(declare-fun math.Log (Real) Real)")
		fr.vc.decl("math.Exp", "(declare-fun math.Exp (Real) Real)")
		return log(fr, c, args, st, pos)
	}
}

func noop(note string) stdSpec {
	return func(fr *frame, c *ssa.CallCommon, args []T, st *state, pos string) []T {
		fr.vc.assumedStd[note] = true
		return []T{}
	}
}

func nonNilErr(fr *frame, c *ssa.CallCommon, args []T, st *state, pos string) []T {
	if len(fr.vc.capStack) > 0 {
		// under a binder (a pure function's panic branch inlined inside a quantified specification): no fresh
		// constant can be declared here; the value only feeds a panic
		return []T{{"1", "Int", c.Signature().Results().At(0).Type()}}
	}
	e := fr.vc.declareConst("err", "Int")
	fr.vc.assume("true", fmt.Sprintf("(> %s 0)", e))
	fr.vc.assumedStd["fmt.Errorf / errors.New return a non-nil error"] = true
	return []T{{e, "Int", c.Signature().Results().At(0).Type()}}
}

func pureStr(name string) stdSpec {
	return func(fr *frame, c *ssa.CallCommon, args []T, st *state, pos string) []T {
		fr.abstract(name + " (result unconstrained)")
		return []T{fr.freshOf("str", types.Typ[types.String], st)}
	}
}

func pureStrFn(name string) stdSpec {
	return func(fr *frame, c *ssa.CallCommon, args []T, st *state, pos string) []T {
		fr.vc.decl(name, fmt.Sprintf("(declare-fun %s (Int) Int)", name))
		fr.vc.assumedStd[name+" (uninterpreted pure function)"] = true
		return []T{{fmt.Sprintf("(%s %s)", name, args[0].S), "Int", types.Typ[types.String]}}
	}
}

// ---- builtins --------------------------------------------------------------------------------

func (fr *frame) builtin(b *ssa.Builtin, c *ssa.CallCommon, instr ssa.Value, st *state, pos string) []T {
	vc := fr.vc
	switch b.Name() {
	case "len", "cap":
		a := fr.val(c.Args[0])
		switch u := unalias(c.Args[0].Type()).Underlying().(type) {
		case *types.Slice:
			sel := "s_len"
			if b.Name() == "cap" {
				sel = "s_cap"
			}
			return []T{{fmt.Sprintf("(%s %s)", sel, a.S), "Int", types.Typ[types.Int]}}
		case *types.Array:
			return []T{{fmt.Sprintf("%d", u.Len()), "Int", types.Typ[types.Int]}}
		case *types.Pointer:
			arr := u.Elem().Underlying().(*types.Array)
			return []T{{fmt.Sprintf("%d", arr.Len()), "Int", types.Typ[types.Int]}}
		case *types.Basic: // string
			return []T{{vc.strLen(a.S), "Int", types.Typ[types.Int]}}
		case *types.Map:
			return []T{{vc.mapLen(st, a, u), "Int", types.Typ[types.Int]}}
		case *types.Chan:
			return []T{fr.freshOf("chanlen", types.Typ[types.Int], st)}
		}
	case "panic":
		fr.doPanic(nil, st)
		return nil
	case "ssa:wrapnilchk":
		return []T{fr.val(c.Args[0])}
	case "print", "println":
		return []T{}
	case "append":
		return []T{fr.doAppend(c, st, pos)}
	case "copy":
		return []T{fr.doCopy(c, st, pos)}
	case "delete":
		m := fr.val(c.Args[0])
		k := fr.val(c.Args[1])
		mt := unalias(c.Args[0].Type()).Underlying().(*types.Map)
		fr.frameCheck("frame.mapwrite", m.S, st, pos)
		mN := vc.define("del_m", "Int", m.S)
		kN := vc.define("del_k", vc.sortOf(mt.Key()), k.S)
		vc.mapStore(st, mt, mN, kN, false, "")
		return []T{}
	case "min", "max":
		a := fr.val(c.Args[0])
		acc := a
		for _, x := range c.Args[1:] {
			v := fr.val(x)
			f := "i" + b.Name()
			if acc.Sort == "Real" {
				f = "r" + b.Name()
			}
			acc = T{fmt.Sprintf("(%s %s %s)", f, acc.S, v.S), acc.Sort, acc.GT}
		}
		return []T{acc}
	}
	if b.Name() == "close" {
		fr.abstract("close of a channel (channels are not modelled)")
		return []T{}
	}
	bail("unsupported builtin %s", b.Name())
	return nil
}

func (vc *VC) strLen(s string) string {
	vc.decl("strlen", "(declare-fun strlen (Int) Int)")
	vc.decl("strlen_ax", "(assert (and (= (strlen 0) 0) (forall ((s Int)) (! (>= (strlen s) 0) :pattern ((strlen s))))))")
	return fmt.Sprintf("(strlen %s)", s)
}

func (vc *VC) mapLen(st *state, m T, mt *types.Map) string {
	ks := vc.sortOf(mt.Key())
	name := "maplen_" + sortTag(ks)
	vc.decl(name, fmt.Sprintf("(declare-fun %s ((Array %s Bool)) Int)", name, ks))
	vc.decl(name+"_ax", fmt.Sprintf("(assert (forall ((d (Array %s Bool))) (! (>= (%s d) 0) :pattern ((%s d)))))", ks, name, name))
	vc.decl(name+"_empty", fmt.Sprintf("(assert (= (%s ((as const (Array %s Bool)) false)) 0))", name, ks))
	vc.assumedStd["len(map): uninterpreted cardinality (>= 0, empty = 0)"] = true
	return fmt.Sprintf("(%s (select %s %s))", name, vc.heapGet(st, vc.heapDom(ks)), m.S)
}

func (fr *frame) doMakeSlice(x *ssa.MakeSlice, st *state) {
	vc := fr.vc
	ln := fr.val(x.Len)
	cp := fr.val(x.Cap)
	et := x.Type().Underlying().(*types.Slice).Elem()
	es := vc.sortOf(et)
	fr.obligeHere("safe.makelen", "", st, fmt.Sprintf("(and (<= 0 %s) (<= %s %s))", ln.S, ln.S, cp.S), fr.pos(x.Pos()))
	r := vc.alloc(st)
	h := vc.heapArr(es)
	z := vc.zero(et)
	_, newH := vc.heapStoreRef(st, h, r, fmt.Sprintf("((as const (Array Int %s)) %s)", es, z.S))
	if len(vc.capStack) == 0 {
		an := vc.at(es, newH, "s", "j")
		vc.emit(fmt.Sprintf("(assert (forall ((s Slice) (j Int)) (! (=> (= (s_arr s) %s) (= %s %s)) :pattern (%s))))", r, an, z.S, an))
	}
	fr.setVal(x, T{fmt.Sprintf("(mk_slice %s 0 %s %s)", r, ln.S, cp.S), "Slice", x.Type()})
}

func (fr *frame) doSlice(x *ssa.Slice, st *state) {
	vc := fr.vc
	var lo, hi, mx string
	if x.Low != nil {
		lo = fr.val(x.Low).S
	} else {
		lo = "0"
	}
	switch u := unalias(x.X.Type()).Underlying().(type) {
	case *types.Slice:
		s := fr.val(x.X)
		if x.High != nil {
			hi = fr.val(x.High).S
		} else {
			hi = fmt.Sprintf("(s_len %s)", s.S)
		}
		if x.Max != nil {
			mx = fr.val(x.Max).S
		} else {
			mx = fmt.Sprintf("(s_cap %s)", s.S)
		}
		fr.obligeHere("safe.slicebounds", "", st, fmt.Sprintf("(and (<= 0 %s) (<= %s %s) (<= %s %s) (<= %s (s_cap %s)))", lo, lo, hi, hi, mx, mx, s.S), fr.pos(x.Pos()))
		fr.setVal(x, T{fmt.Sprintf("(mk_slice (s_arr %s) (+ (s_off %s) %s) (- %s %s) (- %s %s))", s.S, s.S, lo, hi, lo, mx, lo), "Slice", x.Type()})
	case *types.Pointer:
		arr := unalias(u.Elem()).Underlying().(*types.Array)
		base := fr.addrOf(x.X, st)
		if base.kind != aArrPtr {
			// an array embedded in a struct or local: the slice is modelled over a fresh copy of its
			// contents (exact for reads; writes through such a slice are outside the model)
			fr.abstract("slice of an array embedded in another object is modelled as a read-only copy")
			cur := fr.load(base, st)
			r := vc.alloc(st)
			h := vc.heapArr(vc.sortOf(arr.Elem()))
			vc.heapStoreRef(st, h, r, cur.S)
			base = &addr{kind: aArrPtr, ref: r, typ: u.Elem()}
		}
		n := fmt.Sprintf("%d", arr.Len())
		if x.High != nil {
			hi = fr.val(x.High).S
		} else {
			hi = n
		}
		if x.Max != nil {
			mx = fr.val(x.Max).S
		} else {
			mx = n
		}
		fr.obligeHere("safe.slicebounds", "", st, fmt.Sprintf("(and (<= 0 %s) (<= %s %s) (<= %s %s) (<= %s %s))", lo, lo, hi, hi, mx, mx, n), fr.pos(x.Pos()))
		fr.setVal(x, T{fmt.Sprintf("(mk_slice %s %s (- %s %s) (- %s %s))", base.ref, lo, hi, lo, mx, lo), "Slice", x.Type()})
	case *types.Basic:
		// string slicing: abstracted
		fr.havocVal(x, st, "string slicing")
	default:
		bail("Slice on %s", x.X.Type())
	}
	_ = vc
}

// doAppend models append exactly: in place when capacity allows, otherwise a fresh array.
func (fr *frame) doAppend(c *ssa.CallCommon, st *state, pos string) T {
	vc := fr.vc
	s := fr.val(c.Args[0])
	e := fr.val(c.Args[1])
	st0 := unalias(c.Args[0].Type()).Underlying().(*types.Slice)
	var es Sort
	if isString(c.Args[1].Type()) {
		// append([]byte, string...)
		fr.abstract("append of string bytes")
		vc.havocAll(st)
		return fr.freshOf("app", c.Args[0].Type(), st)
	}
	es = vc.sortOf(st0.Elem())
	h := vc.heapArr(es)
	sN := vc.nameConst("app_s", "Slice", s.S)
	eN := vc.nameConst("app_e", "Slice", e.S)
	n := fmt.Sprintf("(s_len %s)", eN)
	newLen := vc.define("app_len", "Int", fmt.Sprintf("(+ (s_len %s) %s)", sN, n))
	inPlace := vc.define("app_inplace", "Bool", fmt.Sprintf("(<= %s (s_cap %s))", newLen, sN))
	cur := vc.heapGet(st, h)
	// frame: writing into spare capacity of existing memory
	if !fr.inline && !fr.modAll {
		alts := []string{not(inPlace), fmt.Sprintf("(= %s 0)", n), fmt.Sprintf("(>= (s_arr %s) %s)", sN, fr.next0)}
		for _, m := range fr.modRefs {
			alts = append(alts, fmt.Sprintf("(= (s_arr %s) %s)", sN, m))
		}
		fr.obligeHere("frame.append", "", st, or(alts...), pos)
	}
	fresh := vc.alloc(st)
	newCap := vc.declareConst("app_cap", "Int")
	vc.assume("true", fmt.Sprintf("(>= %s %s)", newCap, newLen))
	// resulting inner arrays
	srcArr := fmt.Sprintf("(select %s (s_arr %s))", cur, sN)
	elArr := fmt.Sprintf("(select %s (s_arr %s))", cur, eN)
	inner := "(Array Int " + es + ")"
	// in-place array: positions [off+len, off+len+n) overwritten
	var ipArr, frArr string
	if k, ok := constLenOfVarargs(c.Args[1]); ok && k <= 4 {
		ipArr = srcArr
		frArr = ""
		for i := 0; i < k; i++ {
			ipArr = fmt.Sprintf("(store %s (+ (s_off %s) (s_len %s) %d) (select %s (+ (s_off %s) %d)))", ipArr, sN, sN, i, elArr, eN, i)
		}
		// fresh array: copy of prefix then the elements; described by a quantified axiom on a new constant
		fa := vc.declareConst("app_fresh", inner)
		vc.assume("true", fmt.Sprintf("(forall ((j Int)) (! (=> (and (<= 0 j) (< j (s_len %s))) (= (select %s j) (select %s (+ (s_off %s) j)))) :pattern ((select %s j))))", sN, fa, srcArr, sN, fa))
		for i := 0; i < k; i++ {
			vc.assume("true", fmt.Sprintf("(= (select %s (+ (s_len %s) %d)) (select %s (+ (s_off %s) %d)))", fa, sN, i, elArr, eN, i))
		}
		frArr = fa
	} else {
		ia := vc.declareConst("app_inpl", inner)
		vc.assume("true", fmt.Sprintf("(forall ((j Int)) (! (= (select %s j) (ite (and (<= (+ (s_off %s) (s_len %s)) j) (< j (+ (s_off %s) %s))) (select %s (+ (s_off %s) (- j (+ (s_off %s) (s_len %s))))) (select %s j))) :pattern ((select %s j))))",
			ia, sN, sN, sN, newLen, elArr, eN, sN, sN, srcArr, ia))
		ipArr = ia
		fa := vc.declareConst("app_fresh", inner)
		vc.assume("true", fmt.Sprintf("(forall ((j Int)) (! (=> (and (<= 0 j) (< j %s)) (= (select %s j) (ite (< j (s_len %s)) (select %s (+ (s_off %s) j)) (select %s (+ (s_off %s) (- j (s_len %s))))))) :pattern ((select %s j))))",
			newLen, fa, sN, srcArr, sN, elArr, eN, sN, fa))
		frArr = fa
	}
	newHeap := fmt.Sprintf("(ite %s (store %s (s_arr %s) %s) (store %s %s %s))", inPlace, cur, sN, ipArr, cur, fresh, frArr)
	vc.heapSet(st, h, newHeap)
	res0 := fmt.Sprintf("(ite %s (mk_slice (s_arr %s) (s_off %s) %s (s_cap %s)) (mk_slice %s 0 %s %s))", inPlace, sN, sN, newLen, sN, fresh, newLen, newCap)
	resN := vc.nameConst("app_r", "Slice", res0)
	if len(vc.capStack) == 0 {
		newH := st.heap[h]
		vc.atOthersUnchanged(h, newH, cur, fmt.Sprintf("(and (not (= (s_arr s) %s)) (not (and %s (= (s_arr s) (s_arr %s)))))", fresh, inPlace, sN))
		// through the result: old elements then the appended ones
		an := vc.at(es, newH, resN, "j")
		vc.emit(fmt.Sprintf("(assert (forall ((j Int)) (! (=> (and (<= 0 j) (< j %s)) (= %s (ite (< j (s_len %s)) %s %s))) :pattern (%s))))",
			newLen, an, sN, vc.at(es, cur, sN, "j"), vc.at(es, cur, eN, fmt.Sprintf("(- j (s_len %s))", sN)), an))
		// in place: the old slice still sees its own elements
		ao := vc.at(es, newH, sN, "j")
		vc.emit(fmt.Sprintf("(assert (forall ((j Int)) (! (=> (and (<= 0 j) (< j (s_len %s))) (= %s %s)) :pattern (%s))))", sN, ao, vc.at(es, cur, sN, "j"), ao))
	}
	return T{resN, "Slice", c.Args[0].Type()}
	res := fmt.Sprintf("(ite %s (mk_slice (s_arr %s) (s_off %s) %s (s_cap %s)) (mk_slice %s 0 %s %s))", inPlace, sN, sN, newLen, sN, fresh, newLen, newCap)
	return T{vc.define("app_r", "Slice", res), "Slice", c.Args[0].Type()}
}

// constLenOfVarargs recognises the varargs slice go/ssa builds for append(s, a, b, c).
func constLenOfVarargs(v ssa.Value) (int, bool) {
	sl, ok := v.(*ssa.Slice)
	if !ok || sl.Low != nil || sl.High != nil {
		return 0, false
	}
	al, ok := sl.X.(*ssa.Alloc)
	if !ok || al.Comment != "varargs" {
		return 0, false
	}
	arr, ok := al.Type().(*types.Pointer).Elem().Underlying().(*types.Array)
	if !ok {
		return 0, false
	}
	return int(arr.Len()), true
}

func (fr *frame) doCopy(c *ssa.CallCommon, st *state, pos string) T {
	vc := fr.vc
	d := fr.val(c.Args[0])
	s := fr.val(c.Args[1])
	if isString(c.Args[1].Type()) {
		fr.abstract("copy from string")
		vc.havocAll(st)
		return fr.freshOf("copyn", types.Typ[types.Int], st)
	}
	et := unalias(c.Args[0].Type()).Underlying().(*types.Slice).Elem()
	es := vc.sortOf(et)
	h := vc.heapArr(es)
	dN := vc.nameConst("cp_d", "Slice", d.S)
	sN := vc.nameConst("cp_s", "Slice", s.S)
	n := vc.define("cp_n", "Int", fmt.Sprintf("(imin (s_len %s) (s_len %s))", dN, sN))
	if !fr.inline && !fr.modAll {
		alts := []string{fmt.Sprintf("(= %s 0)", n), fmt.Sprintf("(>= (s_arr %s) %s)", dN, fr.next0)}
		for _, m := range fr.modRefs {
			alts = append(alts, fmt.Sprintf("(= (s_arr %s) %s)", dN, m))
		}
		fr.obligeHere("frame.copy", "", st, or(alts...), pos)
	}
	cur := vc.heapGet(st, h)
	inner := "(Array Int " + es + ")"
	na := vc.declareConst("cp_arr", inner)
	dArr := fmt.Sprintf("(select %s (s_arr %s))", cur, dN)
	sArr := fmt.Sprintf("(select %s (s_arr %s))", cur, sN)
	vc.assume("true", fmt.Sprintf("(forall ((j Int)) (! (= (select %s j) (ite (and (<= (s_off %s) j) (< j (+ (s_off %s) %s))) (select %s (+ (s_off %s) (- j (s_off %s)))) (select %s j))) :pattern ((select %s j))))",
		na, dN, dN, n, sArr, sN, dN, dArr, na))
	oldH, newH := vc.heapStoreRef(st, h, fmt.Sprintf("(s_arr %s)", dN), na)
	if len(vc.capStack) == 0 {
		// through the destination slice: first n elements are the source's, the rest unchanged
		an := vc.at(es, newH, dN, "j")
		vc.emit(fmt.Sprintf("(assert (forall ((j Int)) (! (= %s (ite (and (<= 0 j) (< j %s)) %s %s)) :pattern (%s))))", an, n, vc.at(es, oldH, sN, "j"), vc.at(es, oldH, dN, "j"), an))
	}
	return T{n, "Int", types.Typ[types.Int]}
}

// ---- maps --------------------------------------------------------------------------------------

func (fr *frame) doMakeMap(x *ssa.MakeMap, st *state) {
	vc := fr.vc
	mt := unalias(x.Type()).Underlying().(*types.Map)
	ks, vs := vc.sortOf(mt.Key()), vc.sortOf(mt.Elem())
	r := vc.alloc(st)
	d := vc.heapDom(ks)
	v := vc.heapVal(ks, vs)
	od := vc.heapGet(st, d)
	vc.heapSet(st, d, fmt.Sprintf("(store %s %s ((as const (Array %s Bool)) false))", od, r, ks))
	z := vc.zero(mt.Elem())
	ov := vc.heapGet(st, v)
	vc.heapSet(st, v, fmt.Sprintf("(store %s %s ((as const (Array %s %s)) %s))", ov, r, ks, vs, z.S))
	if len(vc.capStack) == 0 {
		an := vc.mhas(ks, st.heap[d], "m", "k")
		vc.emit(fmt.Sprintf("(assert (forall ((m Int) (k %s)) (! (= %s (ite (= m %s) false %s)) :pattern (%s))))", ks, an, r, vc.mhas(ks, od, "m", "k"), an))
		vc.mapOthersUnchanged(v, st.heap[v], ov, fmt.Sprintf("(not (= m %s))", r))
	}
	fr.setVal(x, T{r, "Int", x.Type()})
}

func (fr *frame) doMapUpdate(x *ssa.MapUpdate, st *state) {
	vc := fr.vc
	m := fr.val(x.Map)
	k := fr.val(x.Key)
	v := fr.val(x.Value)
	mt := unalias(x.Map.Type()).Underlying().(*types.Map)
	ks, vs := vc.sortOf(mt.Key()), vc.sortOf(mt.Elem())
	fr.obligeHere("safe.nilmap", "", st, fmt.Sprintf("(not (= %s 0))", m.S), fr.pos(x.Pos()))
	fr.frameCheck("frame.mapwrite", m.S, st, fr.pos(x.Pos()))
	_, _ = ks, vs
	mN := vc.define("mu_m", "Int", m.S)
	kN := vc.define("mu_k", ks, k.S)
	vc.mapStore(st, mt, mN, kN, true, v.S)
}

func (vc *VC) mapHas(st *state, m T, mt *types.Map, k string) string {
	ks := vc.sortOf(mt.Key())
	d := vc.heapDom(ks)
	return vc.mhas(ks, vc.heapGet(st, d), m.S, k)
}

func (vc *VC) mapGet(st *state, m T, mt *types.Map, k string) T {
	ks, vs := vc.sortOf(mt.Key()), vc.sortOf(mt.Elem())
	v := vc.heapVal(ks, vs)
	has := vc.mapHas(st, m, mt, k)
	raw := vc.mval(ks, vs, vc.heapGet(st, v), m.S, k)
	return T{ite(has, raw, vc.zero(mt.Elem()).S), vs, mt.Elem()}
}

// mapStore updates one key of one map and emits the frame helper axioms.
func (vc *VC) mapStore(st *state, mt *types.Map, m, k string, present bool, val string) {
	ks, vs := vc.sortOf(mt.Key()), vc.sortOf(mt.Elem())
	d := vc.heapDom(ks)
	cd := vc.heapGet(st, d)
	pb := "false"
	if present {
		pb = "true"
	}
	vc.heapSet(st, d, fmt.Sprintf("(store %s %s (store (select %s %s) %s %s))", cd, m, cd, m, k, pb))
	if len(vc.capStack) == 0 {
		nd := st.heap[d]
		an := vc.mhas(ks, nd, "m", "k")
		vc.emit(fmt.Sprintf("(assert (forall ((m Int) (k %s)) (! (= %s (ite (and (= m %s) (= k %s)) %s %s)) :pattern (%s))))", ks, an, m, k, pb, vc.mhas(ks, cd, "m", "k"), an))
	}
	if present {
		vv := vc.heapVal(ks, vs)
		cv := vc.heapGet(st, vv)
		vc.heapSet(st, vv, fmt.Sprintf("(store %s %s (store (select %s %s) %s %s))", cv, m, cv, m, k, val))
		if len(vc.capStack) == 0 {
			nv := st.heap[vv]
			an := vc.mval(ks, vs, nv, "m", "k")
			vc.emit(fmt.Sprintf("(assert (forall ((m Int) (k %s)) (! (= %s (ite (and (= m %s) (= k %s)) %s %s)) :pattern (%s))))", ks, an, m, k, val, vc.mval(ks, vs, cv, "m", "k"), an))
		}
	}
}

func (fr *frame) doLookup(x *ssa.Lookup, st *state) {
	vc := fr.vc
	switch mt := unalias(x.X.Type()).Underlying().(type) {
	case *types.Map:
		m := fr.val(x.X)
		k := fr.val(x.Index)
		val := vc.mapGet(st, m, mt, k.S)
		val = T{vc.define(fr.pfx+x.Name()+"_v", val.Sort, val.S), val.Sort, val.GT}
		fr.assumeLoaded(val, st)
		if x.CommaOk {
			fr.tuples[x] = []T{val, {vc.mapHas(st, m, mt, k.S), "Bool", types.Typ[types.Bool]}}
		} else {
			fr.setVal(x, val)
			fr.assumeStaticFresh(x, fr.vals[x], st)
		}
	default:
		fr.havocVal(x, st, "string index")
	}
}

// range over a map: iteration in arbitrary order with a ghost set of keys already seen.
type iterState struct {
	m    T
	mt   *types.Map
	seen string // heap name of the ghost seen-set
	dom0 string // domain at Range time
}

var iterCounter int

func (fr *frame) doRange(x *ssa.Range, st *state) {
	vc := fr.vc
	mt, ok := unalias(x.X.Type()).Underlying().(*types.Map)
	if !ok {
		// string range
		fr.abstract("range over string")
		fr.vals[x] = T{"0", "Int", x.Type()}
		return
	}
	m := fr.val(x.X)
	ks := vc.sortOf(mt.Key())
	iterCounter++
	seen := fmt.Sprintf("Seen_%s_%s%s", sortTag(ks), sanitize(fr.pfx), x.Name())
	vc.regHeap(seen, "(Array "+ks+" Bool)")
	vc.heapSet(st, seen, fmt.Sprintf("((as const (Array %s Bool)) false)", ks))
	d := vc.heapDom(ks)
	dom0 := vc.heapGet(st, d) // the Dom heap version at Range time; membership is mhas(dom0, m, k)
	fr.vals[x] = T{m.S, "Int", x.Type()}
	fr.iters()[x] = &iterState{m, mt, seen, dom0}
}

func (fr *frame) iters() map[ssa.Value]*iterState {
	if fr.iterMap == nil {
		fr.iterMap = map[ssa.Value]*iterState{}
	}
	return fr.iterMap
}

func (fr *frame) doNext(x *ssa.Next, st *state) {
	vc := fr.vc
	if x.IsString {
		fr.abstract("range over string")
		fr.tuples[x] = []T{fr.freshOf("ok", types.Typ[types.Bool], st), fr.freshOf("k", types.Typ[types.Int], st), fr.freshOf("r", types.Typ[types.Rune], st)}
		return
	}
	it := fr.iters()[x.Iter]
	if it == nil {
		bail("Next on unknown iterator")
	}
	ks := vc.sortOf(it.mt.Key())
	seen := vc.heapGet(st, it.seen)
	ok := vc.declareConst("it_ok", "Bool")
	k := vc.declareConst("it_k", ks)
	kt := T{k, ks, it.mt.Key()}
	for _, f := range vc.validity(kt, 0) {
		vc.assume("true", f)
	}
	// The iterated key set is the domain at Range time (the code under contract does not insert into
	// a map while ranging over it; deletions/insertions during iteration are outside the model).
	// ok  => k in dom0 \ seen ; !ok => seen == dom0
	inDom := func(q string) string { return vc.mhas(ks, it.dom0, it.m.S, q) }
	vc.assume(st.reach, fmt.Sprintf("(=> %s (and %s (not (select %s %s))))", ok, inDom(k), seen, k))
	vc.assume(st.reach, fmt.Sprintf("(=> (not %s) (forall ((q %s)) (! (= (select %s q) %s) :pattern ((select %s q)) :pattern (%s))))", ok, ks, seen, inDom("q"), seen, inDom("q")))
	vc.heapSet(st, it.seen, fmt.Sprintf("(ite %s (store %s %s true) %s)", ok, seen, k, seen))
	val := vc.mapGet(st, it.m, it.mt, k)
	val = T{vc.define("it_v", val.Sort, val.S), val.Sort, val.GT}
	fr.assumeLoaded(val, st)
	fr.tuples[x] = []T{{ok, "Bool", types.Typ[types.Bool]}, kt, val}
}

// ---- interfaces ----------------------------------------------------------------------------------

func (vc *VC) typeTag(t types.Type) string {
	return vc.P.strLit("type:" + typeKey(t))
}

func (fr *frame) doMakeInterface(x *ssa.MakeInterface, st *state) {
	vc := fr.vc
	v := fr.val(x.X)
	vc.decl("itag", "(declare-fun itag (Int) Int)")
	id := vc.alloc(st)
	tag := vc.typeTag(x.X.Type())
	vc.assume(st.reach, fmt.Sprintf("(= (itag %s) %s)", id, tag))
	// payload
	pf := "ipay_" + sortTag(v.Sort)
	vc.decl(pf, fmt.Sprintf("(declare-fun %s (Int) %s)", pf, v.Sort))
	vc.assume(st.reach, fmt.Sprintf("(= (%s %s) %s)", pf, id, v.S))
	fr.setVal(x, T{id, "Int", x.Type()})
	if cv, ok := fr.clos[x.X]; ok {
		fr.clos[x] = cv
	}
}

func (fr *frame) doTypeAssert(x *ssa.TypeAssert, st *state) {
	vc := fr.vc
	v := fr.val(x.X)
	vc.decl("itag", "(declare-fun itag (Int) Int)")
	if _, isIface := unalias(x.AssertedType).Underlying().(*types.Interface); isIface {
		// interface-to-interface assertion: succeeds iff dynamic type implements; abstracted
		okc := fr.freshOf("ta_ok", types.Typ[types.Bool], st)
		if x.CommaOk {
			fr.tuples[x] = []T{{v.S, "Int", x.AssertedType}, okc}
		} else {
			fr.abstract("interface-to-interface type assertion")
			fr.setVal(x, T{v.S, "Int", x.AssertedType})
		}
		return
	}
	tag := vc.typeTag(x.AssertedType)
	ok := fmt.Sprintf("(and (not (= %s 0)) (= (itag %s) %s))", v.S, v.S, tag)
	ps := vc.sortOf(x.AssertedType)
	pf := "ipay_" + sortTag(ps)
	vc.decl(pf, fmt.Sprintf("(declare-fun %s (Int) %s)", pf, ps))
	pay := T{fmt.Sprintf("(%s %s)", pf, v.S), ps, x.AssertedType}
	if x.CommaOk {
		fr.tuples[x] = []T{{ite(ok, pay.S, vc.zero(x.AssertedType).S), ps, x.AssertedType}, {ok, "Bool", types.Typ[types.Bool]}}
	} else {
		fr.obligeHere("safe.typeassert", "", st, ok, fr.pos(x.Pos()))
		fr.setVal(x, pay)
	}
}

func trimParens(s string) string { return strings.TrimSpace(s) }

// byte-order helpers of encoding/binary and the float bit casts of package math: no heap effect beyond the
// destination slice; a too-short slice panics (safe.index obligation).
func (vc *VC) declUint(width int) {
	args := strings.TrimSpace(strings.Repeat("Int ", width+1)) // byte order tag, then the bytes
	vc.decl(fmt.Sprintf("bo.u%d", width*8), fmt.Sprintf("(declare-fun bo.u%d (%s) Int)", width*8, args))
}

// byteOrderTag: which ByteOrder a UintN / PutUintN call goes through — the dynamic type of the interface value, or the
// receiver type of a static call (binary.LittleEndian / binary.BigEndian are values of two distinct types).
func (fr *frame) byteOrderTag(c *ssa.CallCommon) string {
	vc := fr.vc
	vc.decl("itag", "(declare-fun itag (Int) Int)")
	if c.IsInvoke() {
		return fmt.Sprintf("(itag %s)", fr.val(c.Value).S)
	}
	if callee := c.StaticCallee(); callee != nil && callee.Signature.Recv() != nil {
		return vc.typeTag(callee.Signature.Recv().Type())
	}
	return "0"
}

func byteOrderRead(width int) stdSpec {
	return func(fr *frame, c *ssa.CallCommon, args []T, st *state, pos string) []T {
		vc := fr.vc
		order := fr.byteOrderTag(c)
		b := args[len(args)-1]
		fr.obligeHere("safe.index", "", st, fmt.Sprintf("(>= (s_len %s) %d)", b.S, width), pos)
		vc.assumedStd["encoding/binary ByteOrder.UintN(b) / PutUintN(b, v): UintN returns bo.uN(b[0..N/8)) in [0, 2^N), an uninterpreted function of the byte order (the dynamic type of the ByteOrder value) and the bytes; PutUintN writes exactly b[:N/8] such that bo.uN(order, bytes) is v; both panic when len(b) < N/8"] = true
		vc.declUint(width)
		h := vc.heapGet(st, vc.heapArr("Int"))
		var bs []string
		for j := 0; j < width; j++ {
			bs = append(bs, vc.at("Int", h, b.S, fmt.Sprintf("%d", j)))
		}
		rt := c.Signature().Results().At(0).Type()
		r := fr.freshOf("bo_v", rt, st)
		if vc.decodeBytes {
			// the unit's contract talks about decoded integers (u16/u32/u64 or a helper built on them): tie the
			// result to the bytes; otherwise it stays "some value in range" and the query stays small
			v := T{fmt.Sprintf("(bo.u%d %s %s)", width*8, order, strings.Join(bs, " ")), "Int", rt}
			vc.assume(st.reach, fmt.Sprintf("(= %s %s)", r.S, v.S))
		}
		return []T{r}
	}
}

func byteOrderPut(width int) stdSpec {
	return func(fr *frame, c *ssa.CallCommon, args []T, st *state, pos string) []T {
		vc := fr.vc
		order := fr.byteOrderTag(c)
		b := args[len(args)-2]
		v := args[len(args)-1]
		fr.obligeHere("safe.index", "", st, fmt.Sprintf("(>= (s_len %s) %d)", b.S, width), pos)
		vc.assumedStd["encoding/binary ByteOrder.UintN(b) / PutUintN(b, v): UintN returns bo.uN(b[0..N/8)) in [0, 2^N), an uninterpreted function of the byte order (the dynamic type of the ByteOrder value) and the bytes; PutUintN writes exactly b[:N/8] such that bo.uN(order, bytes) is v; both panic when len(b) < N/8"] = true
		vc.declUint(width)
		bs := vc.nameConst("bo_b", "Slice", b.S)
		fr.frameCheck("frame.store", fmt.Sprintf("(s_arr %s)", bs), st, pos, fmt.Sprintf("(= (s_cap %s) 0)", bs))
		name := vc.heapArr("Int")
		oldH := vc.heapGet(st, name)
		inner := vc.declareConst("bo_arr", "(Array Int Int)")
		_, newH := vc.heapStoreRef(st, name, fmt.Sprintf("(s_arr %s)", bs), inner)
		// everything is stated over element terms at(heap, slice, index): the bytes written, and the frame
		var outs []string
		for j := 0; j < width; j++ {
			e := vc.at("Int", newH, bs, fmt.Sprintf("%d", j))
			outs = append(outs, e)
			vc.assume(st.reach, fmt.Sprintf("(and (<= 0 %s) (<= %s 255))", e, e))
		}
		vc.assume(st.reach, fmt.Sprintf("(= (bo.u%d %s %s) %s)", width*8, order, strings.Join(outs, " "), v.S))
		an := vc.at("Int", newH, "s", "j")
		ao := vc.at("Int", oldH, "s", "j")
		vc.emit(fmt.Sprintf("(assert (forall ((s Slice) (j Int)) (! (=> (and (= (s_arr s) (s_arr %s)) (or (< (+ (s_off s) j) (s_off %s)) (>= (+ (s_off s) j) (+ (s_off %s) %d)))) (= %s %s)) :pattern (%s))))",
			bs, bs, bs, width, an, ao, an))
		return []T{}
	}
}

func bitCast(name, from, to string, gt types.Type) stdSpec {
	return func(fr *frame, c *ssa.CallCommon, args []T, st *state, pos string) []T {
		fr.vc.decl(name, fmt.Sprintf("(declare-fun %s (%s) %s)", name, from, to))
		fr.vc.assumedStd["math.Float32bits/Float32frombits/Float64bits/Float64frombits: uninterpreted deterministic functions"] = true
		return []T{{fmt.Sprintf("(%s %s)", name, args[0].S), Sort(to), gt}}
	}
}

func init() {
	for _, bo := range []string{"littleEndian", "bigEndian"} {
		for _, w := range []int{2, 4, 8} {
			stdSpecs[fmt.Sprintf("(encoding/binary.%s).Uint%d", bo, w*8)] = byteOrderRead(w)
			stdSpecs[fmt.Sprintf("(encoding/binary.%s).PutUint%d", bo, w*8)] = byteOrderPut(w)
		}
	}
	stdSpecs["math.Float32frombits"] = bitCast("math.Float32frombits", "Int", "Real", types.Typ[types.Float32])
	stdSpecs["math.Float64frombits"] = bitCast("math.Float64frombits", "Int", "Real", types.Typ[types.Float64])
	stdSpecs["math.Float32bits"] = bitCast("math.Float32bits", "Real", "Int", types.Typ[types.Uint32])
	stdSpecs["math.Float64bits"] = bitCast("math.Float64bits", "Real", "Int", types.Typ[types.Uint64])
}
