package main

// Discharging obligations: race of z3 4.8.12, z3 5.1.0 (z3-new) and cvc5.

import (
	"bytes"
	"context"
	"fmt"
	"os"
	"os/exec"
	"path/filepath"
	"runtime"
	"strconv"
	"strings"
	"sync"
	"time"
)

type solverDef struct {
	name string
	args func(timeout time.Duration, file string) []string
}

var solvers = []solverDef{
	{"z3-new", func(t time.Duration, f string) []string {
		return []string{"z3-new", fmt.Sprintf("-T:%d", int(t.Seconds())+1), f}
	}},
	{"z3", func(t time.Duration, f string) []string {
		return []string{"z3", fmt.Sprintf("-T:%d", int(t.Seconds())+1), f}
	}},
	{"cvc5", func(t time.Duration, f string) []string {
		return []string{"cvc5", fmt.Sprintf("--tlimit=%d", t.Milliseconds()), f}
	}},
}

type solveOut struct {
	solver string
	result string
	output string
	secs   float64
}

func runSolver(ctx context.Context, sd solverDef, timeout time.Duration, file string) solveOut {
	start := time.Now()
	argv := sd.args(timeout, file)
	cctx, cancel := context.WithTimeout(ctx, timeout+2*time.Second)
	defer cancel()
	cmd := exec.CommandContext(cctx, argv[0], argv[1:]...)
	var out bytes.Buffer
	cmd.Stdout = &out
	cmd.Stderr = &out
	_ = cmd.Run()
	secs := time.Since(start).Seconds()
	text := out.String()
	// skip solver warnings (e.g. about patterns) in front of the answer
	for strings.HasPrefix(text, "WARNING") || strings.HasPrefix(text, "unsupported") || strings.HasPrefix(text, "success") {
		// "unsupported": a solver's answer to a set-option it does not know (cvc5 and :random-seed)
		i := strings.Index(text, "\n")
		if i < 0 {
			break
		}
		text = text[i+1:]
	}
	first := strings.TrimSpace(strings.SplitN(text, "\n", 2)[0])
	res := "unknown"
	switch {
	case first == "unsat":
		res = "unsat"
	case first == "sat":
		res = "sat"
	case first == "unknown":
		res = "unknown"
	case strings.Contains(first, "timeout") || cctx.Err() != nil:
		res = "timeout"
	case strings.Contains(text, "error") || strings.Contains(text, "Error"):
		res = "error"
	}
	return solveOut{sd.name, res, text, secs}
}

// discharge runs the race for one obligation. allAgree: run every solver to completion (thorough).
func discharge(vc *VC, o *Obligation, dir string, timeout time.Duration, seed int) {
	if o.Static {
		o.Solver = "static"
		if o.Goal == "true" {
			o.Result = "unsat"
		} else {
			o.Result = "sat"
			o.Model = "call at " + o.Pos + " is outside every function whose contract guards it with the lock"
		}
		return
	}
	if strings.HasPrefix(o.Kind, "mustuse") && o.Goal == "false" {
		// a syntactic obligation: the outcome of a read that can come up short is discarded at this call
		o.Result = "sat"
		o.Solver = "static"
		o.Model = "the success/err result of the call at " + o.Pos + " is never inspected, so a stream that ends here is not noticed"
		return
	}
	text := vc.render(o, true)
	if seed != 0 {
		text = fmt.Sprintf("(set-option :random-seed %d)\n", seed%1000000) + text
	}
	o.SMTBytes = len(text)
	file := filepath.Join(dir, sanitize(o.Name)+".smt2")
	if len(file) > 200 {
		file = filepath.Join(dir, fmt.Sprintf("obl_%p.smt2", o))
	}
	if err := os.WriteFile(file, []byte(text), 0o644); err != nil {
		o.Result = "error"
		o.Model = err.Error()
		return
	}
	if o.Vacuity {
		timeout = 2 * time.Second
	}
	fileND, fileIN := "", ""
	inExact := false
	if !o.Vacuity && vc.hasDefs(o) {
		fileND = strings.TrimSuffix(file, ".smt2") + ".opaque.smt2"
		os.WriteFile(fileND, []byte(vc.renderOpt(o, false, renderOpaque)), 0o644)
		fileIN = strings.TrimSuffix(file, ".smt2") + ".inlined.smt2"
		txt := vc.renderOpt(o, true, renderInlined)
		inExact = !strings.Contains(txt, "(fn.")
		os.WriteFile(fileIN, []byte(txt), 0o644)
	}
	ctx, cancel := context.WithCancel(context.Background())
	defer cancel()
	ch := make(chan solveOut, len(solvers)+8)
	var wg sync.WaitGroup
	start := time.Now()
	launch := func(sd solverDef, delay time.Duration) {
		wg.Add(1)
		go func() {
			defer wg.Done()
			if delay > 0 {
				select {
				case <-time.After(delay):
				case <-ctx.Done():
					ch <- solveOut{sd.name, "cancelled", "", 0}
					return
				}
			}
			ch <- runSolver(ctx, sd, timeout, file)
		}()
	}
	if o.Vacuity {
		launch(solvers[0], 0)
		launch(solvers[1], 0)
	} else {
		launch(solvers[0], 0)
		launch(solvers[1], 0)
		launch(solvers[2], 150*time.Millisecond)
	}
	n := 2
	if !o.Vacuity {
		n = 3
	}
	if fileND != "" {
		// same goal with the definitional axioms of pure functions dropped: only "unsat" counts
		n += 2
		wg.Add(2)
		go func() {
			defer wg.Done()
			so := runSolver(ctx, solvers[0], timeout, fileND)
			so.solver = "z3-new(opaque-pure)"
			if so.result != "unsat" {
				so.result = "unknown"
			}
			ch <- so
		}()
		go func() {
			defer wg.Done()
			so := runSolver(ctx, solvers[0], timeout, fileIN)
			so.solver = "z3-new(inlined-pure)"
			if so.result == "sat" && !inExact {
				so.result = "unknown"
			}
			ch <- so
		}()
	}
	// a goal that is one universal statement: also try it with the bound variables replaced by fresh constants
	// (the textbook Skolem form of the negated goal; z3 is markedly faster on it than on "(not (forall ...))")
	if decls, body, ok := skolemGoal(o.Goal); ok && !o.Vacuity {
		fileSK := strings.TrimSuffix(file, ".smt2") + ".skolem.smt2"
		o2 := *o
		o2.Extra = append(append([]string(nil), o.Extra...), decls...)
		o2.Goal = body
		os.WriteFile(fileSK, []byte(vc.render(&o2, false)), 0o644)
		n++
		wg.Add(1)
		go func() {
			defer wg.Done()
			so := runSolver(ctx, solvers[0], timeout, fileSK)
			so.solver = "z3-new(skolem-goal)"
			if so.result != "unsat" {
				so.result = "unknown"
			}
			ch <- so
		}()
	}
	// element access kept abstract: the same query without the definitional axioms at.T(h,s,i) = h[arr s][off s + i].
	// Every heap update also states its effect over at-terms, so proofs about contents usually do not need the raw
	// selects, and without them E-matching does not wander through the store chains of temporary (varargs) arrays.
	// Facts are dropped, so only "unsat" counts.
	if !o.Vacuity && strings.Contains(text, "(! (= (at.") {
		var kept []string
		for _, l := range strings.Split(text, "\n") {
			if strings.HasPrefix(l, "(assert (forall ((h (Array Int (Array Int ") && strings.Contains(l, "(s Slice) (i Int)) (! (= (at.") {
				continue
			}
			kept = append(kept, l)
		}
		fileOA := strings.TrimSuffix(file, ".smt2") + ".opaqueat.smt2"
		os.WriteFile(fileOA, []byte(strings.Join(kept, "\n")), 0o644)
		n++
		wg.Add(1)
		go func() {
			defer wg.Done()
			so := runSolver(ctx, solvers[0], timeout, fileOA)
			so.solver = "z3-new(opaque-at)"
			if so.result != "unsat" {
				so.result = "unknown"
			}
			ch <- so
		}()
	}
	// quantifier-free goals: also try the nlsat pipeline (decides polynomial identities that the
	// default SMT core does not)
	{
		src := file
		txt := text
		if fileIN != "" {
			src = fileIN
			data, _ := os.ReadFile(fileIN)
			txt = string(data)
		}
		if !o.Vacuity && !strings.Contains(txt, "(forall ") && !strings.Contains(txt, "(exists ") && strings.Contains(txt, "Real") {
			fileNL := strings.TrimSuffix(src, ".smt2") + ".nlsat.smt2"
			os.WriteFile(fileNL, []byte(strings.Replace(txt, "(check-sat)", "(check-sat-using (then simplify propagate-values solve-eqs simplify nlsat))", 1)), 0o644)
			n++
			wg.Add(1)
			go func() {
				defer wg.Done()
				so := runSolver(ctx, solvers[0], timeout, fileNL)
				so.solver = "z3-new(nlsat)"
				if so.result != "unsat" {
					so.result = "unknown"
				}
				ch <- so
			}()
		}
	}
	var outs []solveOut
	decided := false
	for i := 0; i < n; i++ {
		so := <-ch
		outs = append(outs, so)
		if so.result == "unsat" || so.result == "sat" {
			o.Result = so.result
			o.Solver = so.solver
			o.Model = so.output
			decided = true
			cancel()
			break
		}
	}
	o.Seconds = time.Since(start).Seconds()
	if !decided {
		o.Result = "unknown"
		var parts []string
		for _, so := range outs {
			parts = append(parts, fmt.Sprintf("%s: %s", so.solver, so.result))
			if so.result == "error" {
				o.Result = "error"
				o.Model += so.solver + ": " + firstLines(so.output, 5) + "\n"
			}
		}
		allTimeout := true
		for _, so := range outs {
			if so.result != "timeout" {
				allTimeout = false
			}
		}
		if allTimeout {
			o.Result = "timeout"
		}
		o.Solver = strings.Join(parts, ", ")
	}
	go func() { wg.Wait() }()
}

// skolemGoal splits "(forall ((x S) ...) body)" into declarations of x ... as constants and the body
// (a "(! body :pattern ...)" annotation is dropped). Bound names are unique in a query (they carry a counter).
func skolemGoal(goal string) (decls []string, body string, ok bool) {
	g := strings.TrimSpace(goal)
	if !strings.HasPrefix(g, "(forall (") || !strings.HasSuffix(g, ")") {
		return nil, "", false
	}
	sexprEnd := func(s string, from int) int {
		depth := 0
		for i := from; i < len(s); i++ {
			switch s[i] {
			case '(':
				depth++
			case ')':
				depth--
				if depth == 0 {
					return i + 1
				}
			}
		}
		return -1
	}
	bStart := len("(forall ")
	bEnd := sexprEnd(g, bStart)
	if bEnd < 0 {
		return nil, "", false
	}
	binders := g[bStart+1 : bEnd-1]
	for i := 0; i < len(binders); {
		for i < len(binders) && binders[i] != '(' {
			i++
		}
		if i >= len(binders) {
			break
		}
		e := sexprEnd(binders, i)
		if e < 0 {
			return nil, "", false
		}
		decls = append(decls, "(declare-const "+binders[i+1:e-1]+")")
		i = e
	}
	body = strings.TrimSpace(g[bEnd : len(g)-1])
	if strings.HasPrefix(body, "(! ") {
		e := sexprEnd(body, 3)
		if e < 0 || body[3] != '(' {
			return nil, "", false
		}
		body = body[3:e]
	}
	if len(decls) == 0 || body == "" || sexprEnd(body, 0) != len(body) {
		return nil, "", false
	}
	return decls, body, true
}

func firstLines(s string, n int) string {
	ls := strings.Split(s, "\n")
	if len(ls) > n {
		ls = ls[:n]
	}
	return strings.Join(ls, "\n")
}

func dischargeAll(units []*UnitResult, dir string, timeout time.Duration, seed int, workers int, prop string) {
	type job struct {
		vc *VC
		o  *Obligation
	}
	var jobs []job
	for _, u := range units {
		if u.VC == nil {
			continue
		}
		for _, o := range u.VC.obls {
			if prop != "" && prop != "C01" && o.Vacuity && u.fc != nil && u.fc.FrameOnly {
				o.Result = "skipped" // the unit contributes only syntactic must-use obligations to this property
				continue
			}
			if prop != "" && !o.Vacuity && o.knownProbe == nil && !belongs(prop, u, o, o.props) {
				o.Result = "skipped" // not an obligation of the property being decided
				continue
			}
			jobs = append(jobs, job{u.VC, o})
		}
	}
	ch := make(chan job)
	var wg sync.WaitGroup
	for w := 0; w < workers; w++ {
		wg.Add(1)
		go func() {
			defer wg.Done()
			for j := range ch {
				discharge(j.vc, j.o, dir, timeout, seed)
				if !j.o.Vacuity && j.o.knownProbe == nil && (j.o.Result == "unknown" || j.o.Result == "timeout") {
					// one retry with a longer limit before an obligation is reported as undischarged
					first := j.o.Seconds
					discharge(j.vc, j.o, dir, 3*timeout, seed+1)
					j.o.Seconds += first
					if (j.o.Result == "unknown" || j.o.Result == "timeout") && machineOverloaded() {
						// the machine is heavily oversubscribed (other checks running beside this one): a time
						// limit says little then; one more attempt with a generous limit before reporting
						prev := j.o.Seconds
						discharge(j.vc, j.o, dir, 10*timeout, seed+2)
						j.o.Seconds += prev
					}
				}
			}
		}()
	}
	for _, j := range jobs {
		ch <- j
	}
	close(ch)
	wg.Wait()
}

// machineOverloaded: the 1-minute load average exceeds 1.5 x the number of CPUs.
func machineOverloaded() bool {
	data, err := os.ReadFile("/proc/loadavg")
	if err != nil {
		return false
	}
	f := strings.Fields(string(data))
	if len(f) == 0 {
		return false
	}
	l, err := strconv.ParseFloat(f[0], 64)
	if err != nil {
		return false
	}
	return l > 1.5*float64(runtime.NumCPU())
}
