package main

// Verification units: one function body against its contract; one lemma.

import (
	"fmt"
	"go/types"
	"runtime"
	"sort"
	"strings"

	"golang.org/x/tools/go/ssa"
)

type UnitResult struct {
	Name       string
	Kind       string // func | lemma
	VC         *VC
	Err        string // non-empty: unit could not be generated (UNDECIDED)
	Stale      bool
	Props      []string
	Pure       bool
	Trusted    bool
	fn         *ssa.Function
	fc         *FuncContract
	paramConst map[string]string
	entry      *state
	specVars   map[string]T
}

func catchUnit(u *UnitResult) {
	if r := recover(); r != nil {
		switch e := r.(type) {
		case unsupported:
			u.Err = "unsupported: " + e.msg
		case staleErr:
			u.Err = "CONTRACT-STALE: " + e.msg
			u.Stale = true
		default:
			buf := make([]byte, 4096)
			n := runtime.Stack(buf, false)
			u.Err = fmt.Sprintf("internal error: %v\n%s", r, buf[:n])
		}
	}
}

// allocFacts: references held by an input value were allocated before the call.
func (vc *VC) allocFacts(x T, next string, depth int) []string {
	if x.GT == nil || depth > 3 {
		return nil
	}
	switch u := unalias(x.GT).Underlying().(type) {
	case *types.Struct:
		var out []string
		for i := 0; i < u.NumFields(); i++ {
			out = append(out, vc.allocFacts(vc.getField(x, i), next, depth+1)...)
		}
		return out
	case *types.Slice:
		return []string{fmt.Sprintf("(< (s_arr %s) %s)", x.S, next)}
	case *types.Pointer, *types.Map, *types.Chan, *types.Signature, *types.Interface:
		return []string{fmt.Sprintf("(< %s %s)", x.S, next)}
	}
	return nil
}

func verifyFunc(p *Program, fn *ssa.Function, fc *FuncContract) (u *UnitResult) {
	name := displayName(fn)
	u = &UnitResult{Name: name, Kind: "func", Props: fc.Props, Pure: fc.Pure, Trusted: fc.Trusted, fn: fn, fc: fc, paramConst: map[string]string{}, specVars: map[string]T{}}
	vc := newVC(p, name)
	u.VC = vc
	defer catchUnit(u)
	vc.logWrites = fc.mentions("wrote(")
	vc.decodeBytes = fc.mentions("16(") || fc.mentions("32(") || fc.mentions("64(")
	if fc.Trusted {
		return u
	}
	if len(fn.Blocks) == 0 {
		u.Err = "function has no body"
		return u
	}
	fr := newFrame(vc, fn, "")
	fr.fc = fc
	for _, cb := range fc.Callbacks {
		fr.callbacks[cb.Param] = cb
	}
	next0 := vc.declareConst("next0", "Int")
	vc.assume("true", fmt.Sprintf("(>= %s 1)", next0))
	fr.next0 = next0
	st := &state{reach: "true", cells: map[*ssa.Alloc]T{}, heap: map[string]string{}, next: next0}
	for _, prm := range fn.Params {
		v := fr.freshOf("p_"+prm.Name(), prm.Type(), st)
		for _, f := range vc.allocFacts(v, next0, 0) {
			vc.assume("true", f)
		}
		fr.vals[prm] = v
		fr.params[prm.Name()] = v
		fr.pointeeFacts(v, st, next0, 0)
		fr.mapEntryFacts(v, st, next0, 0)
		fr.inputs = append(fr.inputs, v.S)
		u.paramConst[prm.Name()] = v.S
		u.specVars[prm.Name()] = v
	}
	for _, fv := range fn.FreeVars {
		v := fr.freshOf("fv_"+fv.Name(), fv.Type(), st)
		for _, f := range vc.allocFacts(v, next0, 0) {
			vc.assume("true", f)
		}
		fr.vals[fv] = v
		fr.inputs = append(fr.inputs, v.S)
		if _, isPtr := unalias(fv.Type()).Underlying().(*types.Pointer); isPtr {
			// captured by reference: the name denotes the pointee
			fr.paramA[fv.Name()] = fr.addrOf(fv, st)
			vc.assume("true", fmt.Sprintf("(> %s 0)", v.S))
		} else {
			fr.params[fv.Name()] = v
		}
	}
	fr.preRegisterHeaps(fn, 0, map[*ssa.Function]bool{})
	for txt, g := range map[string]string{"written(": "G_written", "consumed(": "G_consumed", "wrote(": "G_wbytes", "lines(": "G_lines", "lastInt(": "G_lastInt", "lastSlice(": "G_lastSlice", "emitted(": "G_lastSlice"} {
		if fc.mentions(txt) {
			vc.regHeap(g, ghostSorts[g])
		}
	}
	for _, m := range fc.Modifies {
		if strings.HasPrefix(m, "ghost ") {
			g := "G_" + strings.TrimSpace(m[6:])
			if srt, ok := ghostSorts[g]; ok {
				vc.regHeap(g, srt)
			}
		}
	}
	fr.entry = st.clone()
	u.entry = fr.entry
	// modifies
	env0 := fr.specEnv(st, nil)
	for _, m := range fc.Modifies {
		if strings.HasPrefix(m, "ghost ") {
			continue
		}
		if m == "*" {
			fr.modAll = true
			continue
		}
		me, err := parseSpec(m)
		if err != nil {
			stale("bad modifies item %q: %v", m, err)
		}
		mv := env0.eval(me)
		fr.modRefs = append(fr.modRefs, vc.define("modref", "Int", env0.refOf(mv)))
	}
	// requires
	for _, rq := range fc.Requires {
		vc.assume("true", env0.evalBool(rq.E))
	}
	vo := vc.oblige("vacuity.requires", "", name, "true", "false", "")
	vo.Vacuity = true
	fr.run(st)
	// ensures: one obligation per clause, covering every return
	names := fc.Returns
	type retEnv struct {
		env *Env
		st  *state
	}
	var envs, lenvs []retEnv
	for _, r := range fr.rets {
		ext := map[string]T{}
		if len(names) == 0 {
			if len(r.vals) == 1 {
				ext["result"] = r.vals[0]
			}
			for i, v := range r.vals {
				ext[fmt.Sprintf("result%d", i)] = v
			}
			if fn.Signature.Results() != nil {
				for i := 0; i < fn.Signature.Results().Len(); i++ {
					if n := fn.Signature.Results().At(i).Name(); n != "" && n != "_" && i < len(r.vals) {
						ext[n] = r.vals[i]
					}
				}
			}
		} else {
			if len(names) != len(r.vals) {
				stale("returns clause names %d results, function returns %d", len(names), len(r.vals))
			}
			for i, n := range names {
				ext[n] = r.vals[i]
			}
		}
		env := fr.specEnv(r.st, ext)
		env.calleeScope = true
		envs = append(envs, retEnv{env, r.st})
		lenv := fr.specEnv(r.st, ext)
		lenv.atBlock = r.block
		lenv.atBlockEnd = true
		lenvs = append(lenvs, retEnv{lenv, r.st})
	}
	for ri, re := range envs {
		vo := vc.oblige("vacuity.return", fmt.Sprintf("ret%d", ri+1), name, re.st.reach, "false", "")
		vo.Vacuity = true
	}
	if fc.GuardLock != "" && callsLock(fn) {
		var parts []string
		for _, r := range fr.rets {
			parts = append(parts, implies(r.st.reach, not(fr.heldTerm(r.st))))
		}
		if len(parts) > 0 {
			vc.oblige("guard.released", "", name, "true", and(parts...), "")
		}
	}
	// ghost I/O state (bytes consumed / written, scanner lines): a function that advances it must say so with
	// "modifies ghost <name>", otherwise its callers would keep believing the old value
	if !fr.modAll && !fc.FrameOnly {
		declared := map[string]bool{}
		for _, m := range fc.Modifies {
			if strings.HasPrefix(m, "ghost ") {
				declared["G_"+strings.TrimSpace(m[6:])] = true
			}
		}
		for _, g := range []string{"G_consumed", "G_written", "G_lastSlice", "G_lastInt"} {
			if declared[g] {
				continue
			}
			if _, reg := vc.heapNames[g]; !reg {
				continue
			}
			var parts []string
			e0 := vc.heapGetQuiet(fr.entry, g)
			for _, r := range fr.rets {
				if cur := vc.heapGetQuiet(r.st, g); cur != e0 {
					parts = append(parts, implies(r.st.reach, fmt.Sprintf("(= %s %s)", cur, e0)))
				}
			}
			if len(parts) > 0 {
				vc.oblige("frame.ghost", strings.TrimPrefix(g, "G_"), name, "true", and(parts...), "")
			}
		}
	}
	for i, en := range fc.Ensures {
		lab := en.Label
		if lab == "" {
			lab = fmt.Sprintf("post%d", i+1)
		}
		var parts []string
		use := envs
		if en.Local {
			use = lenvs
		}
		evaluated := 0
		for _, re := range use {
			if en.Local {
				// a return where a local of the clause is not yet in scope: for "A ==> B" the consequent
				// cannot be established there, so the antecedent must be false at that return
				g, ok := tryEvalBool(re.env, en.E)
				if !ok {
					imp, isImp := en.E.(*EBinary)
					if !isImp || imp.Op != "==>" {
						stale("exit clause %s mentions a local that is not in scope at some return and is not an implication", lab)
					}
					g = not(re.env.evalBool(imp.X))
				} else {
					evaluated++
				}
				parts = append(parts, implies(re.st.reach, g))
				continue
			}
			parts = append(parts, implies(re.st.reach, re.env.evalBool(en.E)))
		}
		if en.Local && evaluated == 0 {
			stale("exit clause %s: its locals are in scope at no return", lab)
		}
		if len(parts) == 0 {
			continue
		}
		// cover: the antecedent of "A ==> B" must be reachable at some return, or the clause says nothing
		if imp, isImp := en.E.(*EBinary); isImp && imp.Op == "==>" {
			var covers []string
			for _, re := range use {
				if g, ok := tryEvalBool(re.env, imp.X); ok {
					covers = append(covers, and(re.st.reach, g))
				}
			}
			if len(covers) > 0 {
				co := vc.oblige("vacuity.antecedent", lab, name, "true", not(or(covers...)), "")
				co.Vacuity = true
			}
		}
		o := vc.oblige("ensures", lab, name, "true", and(parts...), fmt.Sprintf("%s:%d", en.File, en.Line))
		o.Values = fr.inputs
		o.props = en.Props
		o.clause = en
	}
	// guarded known findings: the obligation is claimed outside the guard; inside it a probe is expected to fail
	for i := range p.Known {
		kf := &p.Known[i]
		if kf.Status != "open" || kf.Guard == "" {
			continue
		}
		for _, o := range append([]*Obligation{}, vc.obls...) {
			if o.Name != kf.Obligation {
				continue
			}
			ge, err := parseSpec(kf.Guard)
			if err != nil {
				stale("known finding guard %q: %v", kf.Guard, err)
			}
			g := fr.specEnv(fr.entry, nil).evalBool(ge)
			probe := *o
			probe.Name = o.Name + "@inside-known-guard"
			probe.Extra = append(append([]string{}, o.Extra...), "(assert "+g+")")
			probe.knownProbe = kf
			vc.obls = append(vc.obls, &probe)
			o.Extra = append(o.Extra, "(assert (not "+g+"))")
		}
	}
	if fc.Pure {
		// a pure function must not write caller-visible memory: its frame.* obligations (modifies nothing) cover that.
	}
	return u
}

func verifyLemma(p *Program, lm *Lemma) (u *UnitResult) {
	pkgName := lm.Pkg
	if i := strings.LastIndex(pkgName, "/"); i >= 0 {
		pkgName = pkgName[i+1:]
	}
	name := pkgName + ".lemma:" + lm.Name
	u = &UnitResult{Name: name, Kind: "lemma", Props: lm.Props}
	vc := newVC(p, name)
	u.VC = vc
	defer catchUnit(u)
	var pkg *types.Package
	if sp := p.SSAPkgs[lm.Pkg]; sp != nil {
		pkg = sp.Pkg
	}
	next0 := vc.declareConst("next0", "Int")
	vc.assume("true", fmt.Sprintf("(>= %s 1)", next0))
	st := &state{reach: "true", cells: map[*ssa.Alloc]T{}, heap: map[string]string{}, next: next0}
	env := &Env{vc: vc, pkg: pkg, vars: map[string]T{}, st: st, old: st, next0: next0}
	var inputs []string
	for _, prm := range lm.Params {
		gt, srt := env.resolveType(prm.Type)
		n := vc.declareConst("l_"+prm.Name, srt)
		v := T{n, srt, gt}
		for _, f := range vc.validity(v, 0) {
			vc.assume("true", f)
		}
		env.vars[prm.Name] = v
		inputs = append(inputs, n)
	}
	for _, rq := range lm.Requires {
		vc.assume("true", env.evalBool(rq.E))
	}
	vo := vc.oblige("vacuity.requires", "", name, "true", "false", "")
	vo.Vacuity = true
	for i, en := range lm.Ensures {
		g := env.evalBool(en.E)
		lab := en.Label
		if lab == "" {
			lab = fmt.Sprintf("post%d", i+1)
		}
		o := vc.oblige("lemma", lab, name, "true", g, fmt.Sprintf("%s:%d", en.File, en.Line))
		o.Values = inputs
		o.props = en.Props
	}
	return u
}

func (p *Program) ifaceContract(c *ssa.CallCommon) *FuncContract { return nil }

func (fr *frame) ifaceModularCall(ic *FuncContract, c *ssa.CallCommon, args []T, st *state, pos string) []T {
	bail("interface contracts not implemented")
	return nil
}

func tryEvalBool(env *Env, e Expr) (g string, ok bool) {
	defer func() {
		if r := recover(); r != nil {
			if se, is := r.(staleErr); is && strings.Contains(se.msg, "unknown identifier") {
				ok = false
				return
			}
			panic(r)
		}
	}()
	return env.evalBool(e), true
}

// verifyCensus: every call of a guarded method inside the named packages sits in a function whose contract
// guards that method (a syntactic obligation per call site; "static" back end).
func verifyCensus(p *Program, cn *Census) *UnitResult {
	u := &UnitResult{Name: "census(" + cn.PkgPrefix + ")", Kind: "lemma", Props: cn.Props}
	vc := newVC(p, u.Name)
	u.VC = vc
	want := map[string]bool{}
	for _, n := range cn.Names {
		want[n] = true
	}
	var fns []*ssa.Function
	for fn := range p.allFuncs {
		if fn.Pkg == nil || fn.Synthetic != "" {
			continue
		}
		if pre, tree := strings.CutSuffix(cn.PkgPrefix, "/..."); tree {
			if fn.Pkg.Pkg.Path() != pre && !strings.HasPrefix(fn.Pkg.Pkg.Path(), pre+"/") {
				continue
			}
		} else if fn.Pkg.Pkg.Path() != cn.PkgPrefix {
			continue
		}
		fns = append(fns, fn)
	}
	sort.Slice(fns, func(i, j int) bool { return fns[i].String() < fns[j].String() })
	for _, fn := range fns {
		if fn.Origin() != nil {
			continue
		}
		if pos := p.Fset.Position(fn.Pos()); strings.HasSuffix(pos.Filename, "_test.go") {
			continue
		}
		for _, b := range fn.Blocks {
			for _, in := range b.Instrs {
				ci, ok := in.(ssa.CallInstruction)
				if !ok {
					continue
				}
				n := callName(ci.Common())
				if !want[n] {
					continue
				}
				guarded := false
				root := fn
				for root.Parent() != nil {
					root = root.Parent()
				}
				if fc := p.contractFor(root); fc != nil && fc.GuardLock != "" {
					for _, g := range fc.GuardNames {
						if g == n {
							guarded = true
						}
					}
				}
				goal := "true"
				if !guarded {
					goal = "false"
				}
				o := vc.oblige("census["+n+"]", displayName(fn), u.Name, "true", goal, p.Fset.Position(in.Pos()).String())
				o.Static = true
			}
		}
	}
	return u
}

// pointeeFacts: what a pointer parameter points to at entry is a well-formed value of its type (slice headers,
// integer ranges) whose references were allocated before the call; followed through pointer fields two levels.
func (fr *frame) pointeeFacts(v T, st *state, next0 string, depth int) {
	vc := fr.vc
	pt, ok := unalias(v.GT).Underlying().(*types.Pointer)
	if !ok || depth > 2 {
		return
	}
	stt, ok := unalias(pt.Elem()).Underlying().(*types.Struct)
	if !ok {
		return
	}
	s := vc.sortOf(pt.Elem())
	h := vc.heapPtr(s)
	obj := T{fmt.Sprintf("(select %s %s)", vc.heapGet(st, h), v.S), s, pt.Elem()}
	guard := fmt.Sprintf("(> %s 0)", v.S)
	for _, c := range vc.validity(obj, 0) {
		vc.assume("true", implies(guard, c))
	}
	for _, c := range vc.allocFacts(obj, next0, 0) {
		vc.assume("true", implies(guard, c))
	}
	for i := 0; i < stt.NumFields(); i++ {
		if _, isPtr := unalias(stt.Field(i).Type()).Underlying().(*types.Pointer); isPtr {
			fr.pointeeFacts(vc.getField(obj, i), st, next0, depth+1)
		}
	}
}

// mapEntryFacts: the slices stored in a map parameter (or in a map field of a struct parameter) at entry were
// allocated before the call, like everything else reachable from the arguments.
func (fr *frame) mapEntryFacts(x T, st *state, next0 string, depth int) {
	vc := fr.vc
	if x.GT == nil || depth > 2 {
		return
	}
	switch u := unalias(x.GT).Underlying().(type) {
	case *types.Struct:
		for i := 0; i < u.NumFields(); i++ {
			fr.mapEntryFacts(vc.getField(x, i), st, next0, depth+1)
		}
	case *types.Map:
		if _, ok := unalias(u.Elem()).Underlying().(*types.Slice); !ok {
			return
		}
		ks, vs := vc.sortOf(u.Key()), vc.sortOf(u.Elem())
		has := vc.mhas(ks, vc.heapGet(st, vc.heapDom(ks)), x.S, "k")
		raw := vc.mval(ks, vs, vc.heapGet(st, vc.heapVal(ks, vs)), x.S, "k")
		vc.assume("true", fmt.Sprintf("(forall ((k %s)) (! (=> %s (and (<= 0 (s_arr %s)) (< (s_arr %s) %s))) :pattern (%s)))", ks, has, raw, raw, next0, raw))
	}
}

// preRegisterHeaps registers the heap arrays of every pointer / slice / map type the function (and its closures,
// and the pure callees that get inlined) mentions, before any loop is cut: the frame facts emitted at a loop head
// ("heaps the loop does not write are unchanged") range over the registered heaps, so a heap first touched
// after the head would otherwise come out of the loop unconstrained.
func (fr *frame) preRegisterHeaps(fn *ssa.Function, depth int, seen map[*ssa.Function]bool) {
	if fn == nil || seen[fn] || depth > 3 {
		return
	}
	seen[fn] = true
	vc := fr.vc
	reg := func(t types.Type) {
		defer func() { recover() }()
		switch u := unalias(t).Underlying().(type) {
		case *types.Pointer:
			if _, isStruct := unalias(u.Elem()).Underlying().(*types.Struct); isStruct {
				fr.heapNameForPointee(u.Elem())
			} else if _, isArr := unalias(u.Elem()).Underlying().(*types.Array); isArr {
				fr.heapNameForPointee(u.Elem())
			} else if _, isBasic := unalias(u.Elem()).Underlying().(*types.Basic); isBasic {
				fr.heapNameForPointee(u.Elem())
			}
		case *types.Slice:
			vc.heapArr(vc.sortOf(u.Elem()))
		case *types.Map:
			vc.heapDom(vc.sortOf(u.Key()))
			vc.heapVal(vc.sortOf(u.Key()), vc.sortOf(u.Elem()))
		}
	}
	for _, p := range fn.Params {
		reg(p.Type())
	}
	for _, b := range fn.Blocks {
		for _, in := range b.Instrs {
			if v, ok := in.(ssa.Value); ok {
				reg(v.Type())
			}
			if ci, ok := in.(ssa.CallInstruction); ok {
				if callee := ci.Common().StaticCallee(); callee != nil {
					if fc := vc.P.contractFor(callee); fc != nil && fc.Pure || isWrapper(callee) {
						fr.preRegisterHeaps(callee, depth+1, seen)
					}
				}
			}
			if mc, ok := in.(*ssa.MakeClosure); ok {
				if cf, ok := mc.Fn.(*ssa.Function); ok {
					fr.preRegisterHeaps(cf, depth+1, seen)
				}
			}
		}
	}
}

// callsLock: the function itself acquires some mutex (a function that never locks cannot leave one locked).
func callsLock(fn *ssa.Function) bool {
	for _, b := range fn.Blocks {
		for _, in := range b.Instrs {
			if ci, ok := in.(ssa.CallInstruction); ok {
				if callee := ci.Common().StaticCallee(); callee != nil && (callee.Name() == "Lock" || callee.Name() == "RLock") {
					return true
				}
			}
		}
	}
	return false
}
