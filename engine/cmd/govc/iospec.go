package main

// Assumed contracts of the I/O library functions, over ghost state:
//   written(w)    bytes accepted by writer w so far
//   consumed(r)   bytes taken from reader r so far
//   total(r)      length of the (finite) stream behind reader r      (never changes)
//   stream(r, p)  byte at absolute position p of that stream         (never changes)
//   lastSlice(x), lastInt(x)   last slice / integer value moved by encoding/binary through x
// A read succeeds only if the bytes are there (consumed' <= total); it may also fail for other
// reasons (I/O error), so "err == nil" always implies the data was present.

import (
	"fmt"
	"go/types"
	"strings"

	"golang.org/x/tools/go/ssa"
)

func init() {
	ghostSorts["G_written"] = "(Array Int Int)"
	ghostSorts["G_consumed"] = "(Array Int Int)"
	ghostSorts["G_lastSlice"] = "(Array Int Slice)"
	ghostSorts["G_lastInt"] = "(Array Int Int)"
	ghostSorts["G_lastScanOK"] = "(Array Int Bool)"
	stdSpecs["encoding/binary.Write"] = specBinaryWrite
	stdSpecs["encoding/binary.Read"] = specBinaryRead
	stdSpecs["io.ReadFull"] = specReadFull
	stdSpecs["sort.Strings"] = specSortStrings
	ghostSorts["G_lines"] = "(Array Int Int)"
	ghostSorts["G_held"] = "(Array Int Bool)"
	stdSpecs["encoding/json.Marshal"] = func(fr *frame, c *ssa.CallCommon, args []T, st *state, pos string) []T {
		fr.vc.assumedStd["encoding/json.Marshal: returns a freshly allocated byte slice (any content) or an error; no effect on its argument or on any stream"] = true
		ref := fr.vc.alloc(st)
		n := fr.freshOf("json_len", types.Typ[types.Int], st)
		fr.vc.assume("true", fmt.Sprintf("(>= %s 0)", n.S))
		return []T{{fmt.Sprintf("(mk_slice %s 0 %s %s)", ref, n.S, n.S), "Slice", c.Signature().Results().At(0).Type()}, fr.freshOf("json_err", c.Signature().Results().At(1).Type(), st)}
	}
	stdSpecs["(*bytes.Buffer).Bytes"] = func(fr *frame, c *ssa.CallCommon, args []T, st *state, pos string) []T {
		fr.vc.assumedStd["(*bytes.Buffer).Bytes / Len: read-only views of the buffer"] = true
		return []T{fr.freshOf("buf_bytes", c.Signature().Results().At(0).Type(), st)}
	}
	stdSpecs["(*bytes.Buffer).Len"] = func(fr *frame, c *ssa.CallCommon, args []T, st *state, pos string) []T {
		fr.vc.assumedStd["(*bytes.Buffer).Bytes / Len: read-only views of the buffer"] = true
		n := fr.freshOf("buf_len", types.Typ[types.Int], st)
		fr.vc.assume("true", fmt.Sprintf("(>= %s 0)", n.S))
		return []T{n}
	}
	ghostSorts["G_wbytes"] = "(Array Int (Array Int Int))"
	for _, m := range []string{"(*sync.Mutex)", "(*sync.RWMutex)"} {
		stdSpecs[m+".Lock"] = specLock
		stdSpecs[m+".Unlock"] = specUnlock
		stdWrites[m+".Lock"] = []string{"G_held"}
		stdWrites[m+".Unlock"] = []string{"G_held"}
	}
	ghostSorts["G_scanErr"] = "(Array Int Int)"
	stdSpecs["bufio.NewScanner"] = specNewScanner
	stdSpecs["(*bufio.Scanner).Scan"] = specScan
	stdSpecs["(*bufio.Scanner).Text"] = specScanText
	stdSpecs["(*bufio.Scanner).Err"] = func(fr *frame, c *ssa.CallCommon, args []T, st *state, pos string) []T {
		// Err() is a function of the scanner's state: stable between calls to Scan
		fr.vc.regHeap("G_scanErr", "(Array Int Int)")
		return []T{{fmt.Sprintf("(select %s %s)", fr.vc.heapGet(st, "G_scanErr"), args[0].S), "Int", c.Signature().Results().At(0).Type()}}
	}
	stdWrites["bufio.NewScanner"] = []string{"G_lines"}
	stdWrites["(*bufio.Scanner).Scan"] = []string{"G_lines"}
	stdSpecs["strconv.ParseInt"] = func(fr *frame, c *ssa.CallCommon, args []T, st *state, pos string) []T {
		fr.vc.assumedStd["strconv.ParseInt/ParseFloat/Atoi: return some value or a non-nil error (err == nil => the value fits the requested bit size)"] = true
		v := fr.freshOf("parse_v", types.Typ[types.Int64], st)
		e := fr.freshOf("parse_err", c.Signature().Results().At(1).Type(), st)
		// bitSize argument bounds the value
		fr.vc.assume(st.reach, fmt.Sprintf("(=> (and (= %s 0) (= %s 32)) (and (<= (- 2147483648) %s) (<= %s 2147483647)))", e.S, args[2].S, v.S, v.S))
		return []T{v, e}
	}
	stdSpecs["strconv.ParseFloat"] = func(fr *frame, c *ssa.CallCommon, args []T, st *state, pos string) []T {
		fr.vc.assumedStd["strconv.ParseInt/ParseFloat/Atoi: return some value or a non-nil error (err == nil => the value fits the requested bit size)"] = true
		return []T{fr.freshOf("parse_f", types.Typ[types.Float64], st), fr.freshOf("parse_err", c.Signature().Results().At(1).Type(), st)}
	}
	stdSpecs["strconv.Atoi"] = func(fr *frame, c *ssa.CallCommon, args []T, st *state, pos string) []T {
		fr.vc.assumedStd["strconv.ParseInt/ParseFloat/Atoi: return some value or a non-nil error (err == nil => the value fits the requested bit size)"] = true
		return []T{fr.freshOf("parse_i", types.Typ[types.Int], st), fr.freshOf("parse_err", c.Signature().Results().At(1).Type(), st)}
	}
	stdSpecs["strings.Fields"] = func(fr *frame, c *ssa.CallCommon, args []T, st *state, pos string) []T {
		fr.vc.assumedStd["strings.Fields: returns a freshly allocated slice of tokens (any length)"] = true
		r := fr.vc.alloc(st)
		sl := fr.freshOf("fields", c.Signature().Results().At(0).Type(), st)
		fr.vc.assume(st.reach, fmt.Sprintf("(and (= (s_arr %s) %s) (= (s_off %s) 0))", sl.S, r, sl.S))
		return []T{sl}
	}
	mustUse["(*bufio.Scanner).Scan"] = 0
	mustUse["io.ReadFull"] = 1
	mustUse["encoding/binary.Read"] = 0
	stdWrites["encoding/binary.Write"] = []string{"G_written", "G_lastSlice", "G_lastInt"}
	stdWrites["encoding/binary.Read"] = []string{"G_consumed", "G_lastSlice", "G_lastInt"}
	stdWrites["io.ReadFull"] = []string{"G_consumed"}
}

func (vc *VC) ghostGet(st *state, name, idx string) string {
	vc.regHeap(name, ghostSorts[name])
	return fmt.Sprintf("(select %s %s)", vc.heapGet(st, name), idx)
}

func (vc *VC) ghostSet(st *state, name, idx, val string) {
	vc.regHeap(name, ghostSorts[name])
	vc.heapSet(st, name, fmt.Sprintf("(store %s %s %s)", vc.heapGet(st, name), idx, val))
}

func (vc *VC) declStream() {
	vc.decl("io.total", "(declare-fun io.total (Int) Int)")
	vc.decl("io.stream", "(declare-fun io.stream (Int Int) Int)")
	vc.decl("io.stream_ax", "(assert (forall ((r Int) (p Int)) (! (and (<= 0 (io.stream r p)) (<= (io.stream r p) 255)) :pattern ((io.stream r p)))))")
	vc.decl("io.total_ax", "(assert (forall ((r Int)) (! (>= (io.total r) 0) :pattern ((io.total r)))))")
	vc.assumedStd["io readers are finite immutable byte streams: a read that succeeds consumed bytes that exist (consumed <= total); reads may also fail for other reasons"] = true
}

// binarySize returns an SMT term for encoding/binary's size of a value of static type t
// (sizeTerm) — for slices it multiplies by the length of the given slice term.
func (fr *frame) binarySize(t types.Type, val T) (string, bool) {
	switch u := unalias(t).Underlying().(type) {
	case *types.Basic:
		switch u.Kind() {
		case types.Int8, types.Uint8, types.Bool:
			return "1", true
		case types.Int16, types.Uint16:
			return "2", true
		case types.Int32, types.Uint32, types.Float32:
			return "4", true
		case types.Int64, types.Uint64, types.Float64:
			return "8", true
		}
		return "", false
	case *types.Array:
		es, ok := fr.binarySize(u.Elem(), T{})
		if !ok {
			return "", false
		}
		return fmt.Sprintf("(* %d %s)", u.Len(), es), true
	case *types.Struct:
		sum := "0"
		for i := 0; i < u.NumFields(); i++ {
			fs, ok := fr.binarySize(u.Field(i).Type(), T{})
			if !ok {
				return "", false
			}
			sum = fmt.Sprintf("(+ %s %s)", sum, fs)
		}
		return sum, true
	case *types.Slice:
		es, ok := fr.binarySize(u.Elem(), T{})
		if !ok || val.S == "" {
			return "", false
		}
		return fmt.Sprintf("(* (s_len %s) %s)", val.S, es), true
	}
	return "", false
}

// ifaceOperand finds the concrete value an interface argument was made from.
func ifaceOperand(v ssa.Value) ssa.Value {
	for i := 0; i < 4; i++ {
		switch x := v.(type) {
		case *ssa.MakeInterface:
			return x.X
		case *ssa.ChangeInterface:
			v = x.X
		default:
			return nil
		}
	}
	return nil
}

func specBinaryWrite(fr *frame, c *ssa.CallCommon, args []T, st *state, pos string) []T {
	vc := fr.vc
	w := args[0]
	errT := c.Signature().Results().At(0).Type()
	err := fr.freshOf("bw_err", errT, st)
	vc.assumedStd["encoding/binary.Write(w, order, v): err == nil => exactly binary.Size(v) bytes are appended to w (field order, no padding); v is not modified"] = true
	op := ifaceOperand(c.Args[2])
	var size string
	ok := false
	var val T
	if op != nil {
		val = fr.val(op)
		size, ok = fr.binarySize(op.Type(), val)
	}
	cur := vc.ghostGet(st, "G_written", w.S)
	if !ok {
		fr.abstract("binary.Write of a value whose size the engine cannot compute")
		n := vc.declareConst("bw_n", "Int")
		vc.assume("true", fmt.Sprintf("(>= %s 0)", n))
		vc.ghostSet(st, "G_written", w.S, fmt.Sprintf("(+ %s %s)", cur, n))
		return []T{err}
	}
	part := vc.declareConst("bw_part", "Int")
	vc.assume("true", fmt.Sprintf("(and (<= 0 %s) (<= %s %s))", part, part, size))
	vc.ghostSet(st, "G_written", w.S, fmt.Sprintf("(+ %s (ite (= %s 0) %s %s))", cur, err.S, size, part))
	if val.Sort == "Slice" {
		vc.ghostSet(st, "G_lastSlice", w.S, val.S)
	} else if val.Sort == "Int" {
		vc.ghostSet(st, "G_lastInt", w.S, val.S)
	}
	return []T{err}
}

// havocPointee forgets the contents behind a pointer / slice handed to a reader.
func (fr *frame) havocPointee(v ssa.Value, st *state, pos string) (T, bool) {
	vc := fr.vc
	val := fr.val(v)
	switch u := unalias(v.Type()).Underlying().(type) {
	case *types.Slice:
		fr.havocTarget(val, st, pos)
		return val, true
	case *types.Pointer:
		switch e := unalias(u.Elem()).Underlying().(type) {
		case *types.Slice:
			// pointer to a slice variable: the elements are overwritten, the header stays
			a := fr.addrOf(v, st)
			sl := fr.load(a, st)
			sl.GT = u.Elem()
			fr.havocTarget(sl, st, pos)
			return sl, true
		case *types.Array:
			_ = e
			a := fr.addrOf(v, st)
			nv := fr.freshOf("rd_arr", u.Elem(), st)
			fr.store(a, nv, st, pos)
			return nv, true
		default:
			a := fr.addrOf(v, st)
			nv := fr.freshOf("rd_val", u.Elem(), st)
			fr.store(a, nv, st, pos)
			return nv, true
		}
	}
	_ = vc
	return T{}, false
}

func specBinaryRead(fr *frame, c *ssa.CallCommon, args []T, st *state, pos string) []T {
	vc := fr.vc
	vc.declStream()
	r := args[0]
	errT := c.Signature().Results().At(0).Type()
	err := fr.freshOf("br_err", errT, st)
	vc.assumedStd["encoding/binary.Read(r, order, p): err == nil => exactly binary.Size(*p) bytes were consumed and they existed in the stream; a stream with fewer bytes left yields err != nil"] = true
	op := ifaceOperand(c.Args[2])
	cur := vc.ghostGet(st, "G_consumed", r.S)
	if op == nil {
		fr.abstract("binary.Read into a value the engine cannot see")
		vc.havocAll(st)
		return []T{err}
	}
	// size is computed from the destination before it is overwritten
	var sizeT types.Type
	var szVal T
	switch u := unalias(op.Type()).Underlying().(type) {
	case *types.Pointer:
		sizeT = u.Elem()
		if _, isSl := unalias(u.Elem()).Underlying().(*types.Slice); isSl {
			szVal = fr.load(fr.addrOf(op, st), st)
		}
	case *types.Slice:
		sizeT = op.Type()
		szVal = fr.val(op)
	}
	size, ok := "", false
	if sizeT != nil {
		size, ok = fr.binarySize(sizeT, szVal)
	}
	nv, hok := fr.havocPointee(op, st, pos)
	if !ok || !hok {
		fr.abstract("binary.Read of a value whose size the engine cannot compute")
		n := vc.declareConst("br_n", "Int")
		vc.assume("true", fmt.Sprintf("(>= %s 0)", n))
		vc.ghostSet(st, "G_consumed", r.S, fmt.Sprintf("(+ %s %s)", cur, n))
		return []T{err}
	}
	sz := vc.define("br_size", "Int", size)
	part := vc.declareConst("br_part", "Int")
	vc.assume("true", fmt.Sprintf("(and (<= 0 %s) (<= %s %s) (<= (+ %s %s) (io.total %s)))", part, part, sz, cur, part, r.S))
	// success only if the bytes exist
	vc.assume(st.reach, fmt.Sprintf("(=> (= %s 0) (<= (+ %s %s) (io.total %s)))", err.S, cur, sz, r.S))
	vc.ghostSet(st, "G_consumed", r.S, fmt.Sprintf("(+ %s (ite (= %s 0) %s %s))", cur, err.S, sz, part))
	if nv.Sort == "Slice" {
		vc.ghostSet(st, "G_lastSlice", r.S, nv.S)
	} else if nv.Sort == "Int" {
		vc.ghostSet(st, "G_lastInt", r.S, nv.S)
	}
	return []T{err}
}

func specReadFull(fr *frame, c *ssa.CallCommon, args []T, st *state, pos string) []T {
	vc := fr.vc
	vc.declStream()
	r := args[0]
	buf := args[1]
	vc.assumedStd["io.ReadFull(r, buf): err == nil => n == len(buf), buf holds the next len(buf) bytes of the stream and they existed; a stream with fewer bytes left yields err != nil; err == io.EOF => n == 0"] = true
	n := fr.freshOf("rf_n", types.Typ[types.Int], st)
	err := fr.freshOf("rf_err", c.Signature().Results().At(1).Type(), st)
	cur := vc.define("rf_cur", "Int", vc.ghostGet(st, "G_consumed", r.S))
	fr.havocTarget(T{buf.S, "Slice", c.Args[1].Type()}, st, pos)
	bs := vc.nameConst("rf_buf", "Slice", buf.S)
	h := vc.heapArr("Int")
	hcur := vc.heapGet(st, h)
	vc.assume(st.reach, fmt.Sprintf("(and (<= 0 %s) (<= %s (s_len %s)) (<= (+ %s %s) (io.total %s)))", n.S, n.S, bs, cur, n.S, r.S))
	vc.assume(st.reach, fmt.Sprintf("(=> (= %s 0) (= %s (s_len %s)))", err.S, n.S, bs))
	vc.assume(st.reach, fmt.Sprintf("(=> (not (= %s 0)) (< %s (s_len %s)))", err.S, n.S, bs))
	// io.EOF is returned only when no byte was read (a partial read reports io.ErrUnexpectedEOF)
	vc.assume(st.reach, fmt.Sprintf("(=> (= %s %s) (= %s 0))", err.S, vc.P.strLit("globalerr:io.EOF"), n.S))
	atj := vc.at("Int", hcur, bs, "j")
	vc.assume(st.reach, fmt.Sprintf("(forall ((j Int)) (! (=> (and (<= 0 j) (< j %s)) (= %s (io.stream %s (+ %s j)))) :pattern (%s)))", n.S, atj, r.S, cur, atj))
	vc.ghostSet(st, "G_consumed", r.S, fmt.Sprintf("(+ %s %s)", cur, n.S))
	return []T{n, err}
}

// ioInvoke: interface method calls on io.Writer / io.Reader.
func (fr *frame) ioInvoke(c *ssa.CallCommon, st *state, pos string) ([]T, bool) {
	vc := fr.vc
	name := c.Method.FullName()
	if strings.HasPrefix(name, "(encoding/binary.ByteOrder).") {
		var args []T
		for _, a := range c.Args {
			args = append(args, fr.val(a))
		}
		for _, w := range []int{2, 4, 8} {
			if name == fmt.Sprintf("(encoding/binary.ByteOrder).Uint%d", w*8) {
				return byteOrderRead(w)(fr, c, args, st, pos), true
			}
			if name == fmt.Sprintf("(encoding/binary.ByteOrder).PutUint%d", w*8) {
				return byteOrderPut(w)(fr, c, args, st, pos), true
			}
		}
	}
	switch name {
	case "(io.Writer).Write":
		w := fr.val(c.Value)
		p := fr.val(c.Args[0])
		vc.assumedStd["(io.Writer).Write(p): err == nil => n == len(p) bytes appended; p is not modified"] = true
		n := fr.freshOf("w_n", types.Typ[types.Int], st)
		err := fr.freshOf("w_err", c.Signature().Results().At(1).Type(), st)
		vc.assume(st.reach, fmt.Sprintf("(and (<= 0 %s) (<= %s (s_len %s)) (=> (= %s 0) (= %s (s_len %s))))", n.S, n.S, p.S, err.S, n.S, p.S))
		cur := vc.ghostGet(st, "G_written", w.S)
		if vc.logWrites {
			// content of the written stream: wrote(w, q) for the positions just appended (contracts that mention wrote())
			vc.regHeap("G_wbytes", ghostSorts["G_wbytes"])
			curN := vc.define("w_cur", "Int", cur)
			oldW := vc.heapGet(st, "G_wbytes")
			inner := vc.declareConst("w_bytes", "(Array Int Int)")
			ps := vc.nameConst("w_p", "Slice", p.S)
			h := vc.heapGet(st, vc.heapArr("Int"))
			vc.assume(st.reach, fmt.Sprintf("(forall ((q Int)) (! (=> (and (<= %s q) (< q (+ %s %s))) (= (select %s q) %s)) :pattern ((select %s q))))",
				curN, curN, n.S, inner, vc.at("Int", h, ps, fmt.Sprintf("(- q %s)", curN)), inner))
			vc.assume(st.reach, fmt.Sprintf("(forall ((q Int)) (! (=> (< q %s) (= (select %s q) (select (select %s %s) q))) :pattern ((select %s q))))",
				curN, inner, oldW, w.S, inner))
			vc.heapSet(st, "G_wbytes", fmt.Sprintf("(store %s %s %s)", oldW, w.S, inner))
		}
		vc.ghostSet(st, "G_written", w.S, fmt.Sprintf("(+ %s %s)", cur, n.S))
		return []T{n, err}, true
	case "(io.Reader).Read":
		vc.declStream()
		r := fr.val(c.Value)
		p := fr.val(c.Args[0])
		vc.assumedStd["(io.Reader).Read(p): 0 <= n <= len(p) bytes of the stream are copied into p[:n]"] = true
		n := fr.freshOf("r_n", types.Typ[types.Int], st)
		err := fr.freshOf("r_err", c.Signature().Results().At(1).Type(), st)
		cur := vc.define("r_cur", "Int", vc.ghostGet(st, "G_consumed", r.S))
		fr.havocTarget(T{p.S, "Slice", c.Args[0].Type()}, st, pos)
		h := vc.heapArr("Int")
		atj := vc.at("Int", vc.heapGet(st, h), p.S, "j")
		vc.assume(st.reach, fmt.Sprintf("(and (<= 0 %s) (<= %s (s_len %s)) (<= (+ %s %s) (io.total %s)))", n.S, n.S, p.S, cur, n.S, r.S))
		vc.assume(st.reach, fmt.Sprintf("(forall ((j Int)) (! (=> (and (<= 0 j) (< j %s)) (= %s (io.stream %s (+ %s j)))) :pattern (%s)))", n.S, atj, r.S, cur, atj))
		vc.ghostSet(st, "G_consumed", r.S, fmt.Sprintf("(+ %s %s)", cur, n.S))
		return []T{n, err}, true
	}
	return nil, false
}

func ioInvokeWrites(c *ssa.CallCommon, vc *VC) (map[string]bool, bool) {
	if n := c.Method.FullName(); strings.HasPrefix(n, "(encoding/binary.ByteOrder).") {
		if strings.Contains(n, ").PutUint") {
			return map[string]bool{vc.heapArr("Int"): true}, true
		}
		if strings.Contains(n, ").Uint") {
			return map[string]bool{}, true
		}
	}
	switch c.Method.FullName() {
	case "(io.Writer).Write":
		vc.regHeap("G_written", ghostSorts["G_written"])
		if vc.logWrites {
			vc.regHeap("G_wbytes", ghostSorts["G_wbytes"])
			return map[string]bool{"G_written": true, "G_wbytes": true}, true
		}
		return map[string]bool{"G_written": true}, true
	case "(io.Reader).Read":
		vc.regHeap("G_consumed", ghostSorts["G_consumed"])
		return map[string]bool{"G_consumed": true, vc.heapArr("Int"): true}, true
	}
	return nil, false
}

// sort.Strings(x): x becomes a rearrangement of its former contents (skolemised permutation), sorted.
func specSortStrings(fr *frame, c *ssa.CallCommon, args []T, st *state, pos string) []T {
	vc := fr.vc
	vc.assumedStd["sort.Strings(x): afterwards x holds a permutation of its former elements"] = true
	x := vc.nameConst("sort_x", "Slice", args[0].S)
	h := vc.heapArr("Int")
	oldH := vc.heapGet(st, h)
	fr.havocTarget(T{x, "Slice", c.Args[0].Type()}, st, pos)
	newH := vc.heapGet(st, h)
	vc.ctr++
	perm := fmt.Sprintf("sort_perm!%d", vc.ctr)
	inv := fmt.Sprintf("sort_inv!%d", vc.ctr)
	vc.emit(fmt.Sprintf("(declare-fun %s (Int) Int)", perm))
	vc.emit(fmt.Sprintf("(declare-fun %s (Int) Int)", inv))
	an := vc.at("Int", newH, x, "j")
	ao := vc.at("Int", oldH, x, "j")
	vc.assume(st.reach, fmt.Sprintf("(forall ((j Int)) (! (=> (and (<= 0 j) (< j (s_len %s))) (and (<= 0 (%s j)) (< (%s j) (s_len %s)) (= %s %s))) :pattern (%s)))",
		x, perm, perm, x, an, vc.at("Int", oldH, x, fmt.Sprintf("(%s j)", perm)), an))
	vc.assume(st.reach, fmt.Sprintf("(forall ((j Int)) (! (=> (and (<= 0 j) (< j (s_len %s))) (and (<= 0 (%s j)) (< (%s j) (s_len %s)) (= %s %s))) :pattern (%s)))",
		x, inv, inv, x, ao, vc.at("Int", newH, x, fmt.Sprintf("(%s j)", inv)), ao))
	return []T{}
}

// results of these library calls signal short input: ignoring them is an obligation failure (C14)
var mustUse = map[string]int{}

// bufio.Scanner over a finite input: lines(s) tokens remain; Scan() consumes one or reports the end.
func specNewScanner(fr *frame, c *ssa.CallCommon, args []T, st *state, pos string) []T {
	vc := fr.vc
	vc.assumedStd["bufio.Scanner: a finite number of tokens remain (ghost lines(s) >= 0); Scan() == true consumes exactly one, Scan() == false means none was left (or an error); Text() after a failed Scan is the empty string"] = true
	r := vc.alloc(st)
	n := vc.declareConst("scan_lines", "Int")
	vc.assume("true", fmt.Sprintf("(>= %s 0)", n))
	vc.ghostSet(st, "G_lines", r, n)
	return []T{{r, "Int", c.Signature().Results().At(0).Type()}}
}

func specScan(fr *frame, c *ssa.CallCommon, args []T, st *state, pos string) []T {
	vc := fr.vc
	s := args[0]
	cur := vc.define("scan_cur", "Int", vc.ghostGet(st, "G_lines", s.S))
	ok := fr.freshOf("scan_ok", types.Typ[types.Bool], st)
	vc.assume(st.reach, fmt.Sprintf("(>= %s 0)", cur))
	vc.assume(st.reach, fmt.Sprintf("(=> %s (>= %s 1))", ok.S, cur))
	vc.ghostSet(st, "G_lines", s.S, fmt.Sprintf("(ite %s (- %s 1) %s)", ok.S, cur, cur))
	// a failing Scan may record an error; a successful one leaves Err() as it was
	vc.regHeap("G_scanErr", "(Array Int Int)")
	ne := fr.freshOf("scan_err", types.Typ[types.Int], st)
	vc.assume(st.reach, fmt.Sprintf("(>= %s 0)", ne.S))
	eh := vc.heapGet(st, "G_scanErr")
	vc.heapSet(st, "G_scanErr", fmt.Sprintf("(store %s %s (ite %s (select %s %s) %s))", eh, s.S, ok.S, eh, s.S, ne.S))
	// remember the outcome for Text()
	vc.regHeap("G_lastScanOK", "(Array Int Bool)")
	vc.heapSet(st, "G_lastScanOK", fmt.Sprintf("(store %s %s %s)", vc.heapGet(st, "G_lastScanOK"), s.S, ok.S))
	return []T{ok}
}

func specScanText(fr *frame, c *ssa.CallCommon, args []T, st *state, pos string) []T {
	vc := fr.vc
	vc.regHeap("G_lastScanOK", "(Array Int Bool)")
	t := fr.freshOf("scan_text", types.Typ[types.String], st)
	vc.assume(st.reach, fmt.Sprintf("(=> (not (select %s %s)) (= %s 0))", vc.heapGet(st, "G_lastScanOK"), args[0].S, t.S))
	return []T{t}
}

// sync.Mutex as ghost state: held(m) for the running goroutine.  Lock on a mutex already held by the caller
// would deadlock (lock.free), Unlock of one not held panics (lock.held).
func specLock(fr *frame, c *ssa.CallCommon, args []T, st *state, pos string) []T {
	vc := fr.vc
	vc.regHeap("G_held", ghostSorts["G_held"])
	vc.assumedStd["sync.Mutex: Lock/Unlock modelled as the ghost flag held(m) of the running goroutine; mutual exclusion between goroutines is the meaning of the mutex, not proved here"] = true
	h := vc.heapGet(st, "G_held")
	fr.obligeHere("lock.free", "", st, fmt.Sprintf("(not (select %s %s))", h, args[0].S), pos)
	vc.heapSet(st, "G_held", fmt.Sprintf("(store %s %s true)", h, args[0].S))
	return []T{}
}

func specUnlock(fr *frame, c *ssa.CallCommon, args []T, st *state, pos string) []T {
	vc := fr.vc
	vc.regHeap("G_held", ghostSorts["G_held"])
	h := vc.heapGet(st, "G_held")
	fr.obligeHere("lock.held", "", st, fmt.Sprintf("(select %s %s)", h, args[0].S), pos)
	vc.heapSet(st, "G_held", fmt.Sprintf("(store %s %s false)", h, args[0].S))
	return []T{}
}

// callName: "Recv.Method" for methods (static or interface), "Func" otherwise; type arguments dropped.
func callName(c *ssa.CallCommon) string {
	strip := func(s string) string {
		if i := strings.Index(s, "["); i >= 0 {
			s = s[:i]
		}
		if i := strings.LastIndex(s, "."); i >= 0 {
			s = s[i+1:]
		}
		return strings.TrimPrefix(s, "*")
	}
	if c.IsInvoke() {
		return strip(types.TypeString(c.Value.Type(), func(*types.Package) string { return "" })) + "." + c.Method.Name()
	}
	callee := c.StaticCallee()
	if callee == nil {
		return ""
	}
	if callee.Signature.Recv() != nil {
		rt := callee.Signature.Recv().Type()
		if p, ok := unalias(rt).(*types.Pointer); ok {
			rt = p.Elem()
		}
		return strip(types.TypeString(rt, func(*types.Package) string { return "" })) + "." + callee.Name()
	}
	return callee.Name()
}
