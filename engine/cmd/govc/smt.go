package main

// SMT-side vocabulary: sorts, terms, declarations, the per-unit command list.

import (
	"fmt"
	"go/constant"
	"go/types"
	"math/big"
	"sort"
	"strings"

	"golang.org/x/tools/go/ssa"
)

type Sort = string

// T is a typed SMT term. GT may be nil for spec-only (mathematical) values.
type T struct {
	S    string
	Sort Sort
	GT   types.Type
}

func (t T) String() string { return t.S }

// Obligation is one proof goal: everything in cmds[:At] is assumed, Reach holds, Goal must follow.
type Obligation struct {
	Name    string
	Kind    string // ensures, requires@call, invariant.init, invariant.preserve, safe.index, frame.store, lemma, ...
	Fn      string
	At      int
	Reach   string
	Goal    string
	Pos     string   // source position (informational)
	Values  []string // terms worth reporting from a model (inputs)
	Vacuity bool     // true: expected NOT to be unsat (assert false probe)
	Static  bool     // decided syntactically: Goal is the literal true or false
	// results
	Result     string // unsat | sat | unknown | timeout | error
	Solver     string
	Seconds    float64
	Model      string
	SMTBytes   int
	Extra      []string // extra commands asserted only for this obligation (skolem decls etc.)
	props      []string
	knownProbe *KnownFinding // set on the in-guard probe of a guarded known finding
	clause     *Clause
}

// VC collects declarations, commands and obligations for one verification unit
// (one function body under contract, or one lemma).
type VC struct {
	P             *Program
	Unit          string
	declSeen      map[string]bool
	decls         []string
	cmds          []string
	cmdDef        map[int]int    // droppable facts: 1 = definitional equality of a pure application, 2 = other axiom instance (sqrt)
	cmdAlt        map[int]string // alternative text of a command in the 'inlined' rendering
	obls          []*Obligation
	ctr           int
	kindCtr       map[string]int
	abstracted    map[string]bool
	assumedStd    map[string]bool
	pureUsed      map[string]bool
	pureFns       map[*ssa.Function]bool
	uncontracted  map[*ssa.Function]bool
	pureHeapDep   map[*ssa.Function]bool
	pureHeapIndep map[*ssa.Function]bool
	heapReads     int
	notes         []string
	structName    map[string]string // types key -> datatype name
	heapNames     map[string]Sort   // heap array name -> sort
	heapOrder     []string
	epochCtr      int
	decodeBytes   bool // the unit's contract mentions u16/u32/u64 (or b32/b64/w32...): ByteOrder.UintN results are tied to the bytes
	logWrites     bool // the unit's contract mentions wrote(): io.Writer.Write records byte contents
	capStack      []*captureBuf
	valK, valV    map[string]Sort
}

func newVC(p *Program, unit string) *VC {
	vc := &VC{P: p, Unit: unit,
		declSeen: map[string]bool{}, kindCtr: map[string]int{}, cmdDef: map[int]int{}, cmdAlt: map[int]string{},
		abstracted: map[string]bool{}, assumedStd: map[string]bool{}, pureUsed: map[string]bool{}, pureFns: map[*ssa.Function]bool{}, uncontracted: map[*ssa.Function]bool{}, pureHeapDep: map[*ssa.Function]bool{}, pureHeapIndep: map[*ssa.Function]bool{},
		structName: map[string]string{}, heapNames: map[string]Sort{}}
	vc.decl("Slice", "(declare-datatypes ((Slice 0)) (((mk_slice (s_arr Int) (s_off Int) (s_len Int) (s_cap Int)))))")
	vc.decl("go_div", "(define-fun go_div ((a Int) (b Int)) Int (ite (>= a 0) (ite (> b 0) (div a b) (- (div a (- b)))) (ite (> b 0) (- (div (- a) b)) (div (- a) (- b)))))")
	vc.decl("go_mod", "(define-fun go_mod ((a Int) (b Int)) Int (- a (* b (go_div a b))))")
	vc.decl("rabs", "(define-fun rabs ((a Real)) Real (ite (>= a 0.0) a (- a)))")
	vc.decl("iabs", "(define-fun iabs ((a Int)) Int (ite (>= a 0) a (- a)))")
	vc.decl("rmin", "(define-fun rmin ((a Real) (b Real)) Real (ite (<= a b) a b))")
	vc.decl("rmax", "(define-fun rmax ((a Real) (b Real)) Real (ite (>= a b) a b))")
	vc.decl("imin", "(define-fun imin ((a Int) (b Int)) Int (ite (<= a b) a b))")
	vc.decl("imax", "(define-fun imax ((a Int) (b Int)) Int (ite (>= a b) a b))")
	// truncation toward zero of a real
	vc.decl("rtrunc", "(define-fun rtrunc ((a Real)) Int (ite (>= a 0.0) (to_int a) (- (to_int (- a)))))")
	return vc
}

func (vc *VC) decl(key, text string) {
	if vc.declSeen[key] {
		return
	}
	vc.declSeen[key] = true
	vc.decls = append(vc.decls, text)
}

func (vc *VC) emit(s string) {
	if len(vc.capStack) > 0 {
		bail("internal: raw emit under a binder: %s", s)
	}
	vc.cmds = append(vc.cmds, s)
}

func (vc *VC) fresh(base string) string {
	vc.ctr++
	return fmt.Sprintf("%s!%d", sanitize(base), vc.ctr)
}

// declareConst introduces an unconstrained constant (in the ordered command list).
func (vc *VC) declareConst(base string, s Sort) string {
	if len(vc.capStack) > 0 {
		bail("unconstrained value (%s) needed while evaluating a quantified specification", base)
	}
	n := vc.fresh(base)
	vc.emit(fmt.Sprintf("(declare-const %s %s)", n, s))
	return n
}

// define introduces a named definition.
func (vc *VC) define(base string, s Sort, body string) string {
	n := vc.fresh(base)
	if len(vc.capStack) > 0 {
		cb := vc.capStack[len(vc.capStack)-1]
		cb.items = append(cb.items, capItem{isDef: true, name: n, body: body})
		return n
	}
	vc.emit(fmt.Sprintf("(define-fun %s () %s %s)", n, s, body))
	return n
}

// nameConst names a term by a declared constant (usable inside quantifier patterns, unlike a macro).
func (vc *VC) nameConst(base string, s Sort, body string) string {
	if len(vc.capStack) > 0 {
		return vc.define(base, s, body)
	}
	n := vc.fresh(base)
	vc.emit(fmt.Sprintf("(declare-const %s %s)", n, s))
	vc.emit(fmt.Sprintf("(assert (= %s %s))", n, body))
	return n
}

func (vc *VC) assume(reach, fact string) {
	if fact == "true" {
		return
	}
	if len(vc.capStack) > 0 {
		cb := vc.capStack[len(vc.capStack)-1]
		cb.items = append(cb.items, capItem{fact: implies(reach, fact)})
		return
	}
	if reach == "true" || reach == "" {
		vc.emit(fmt.Sprintf("(assert %s)", fact))
	} else {
		vc.emit(fmt.Sprintf("(assert (=> %s %s))", reach, fact))
	}
}

func (vc *VC) oblige(kind, label, fn, reach, goal, pos string) *Obligation {
	vc.kindCtr[fn+"#"+kind]++
	name := fmt.Sprintf("%s#%s", fn, kind)
	if label != "" {
		name += ":" + label
	} else {
		name += fmt.Sprintf("[%d]", vc.kindCtr[fn+"#"+kind])
	}
	// unique names
	for _, o := range vc.obls {
		if o.Name == name {
			name += fmt.Sprintf("[%d]", vc.kindCtr[fn+"#"+kind])
			break
		}
	}
	o := &Obligation{Name: name, Kind: kind, Fn: fn, At: len(vc.cmds), Reach: reach, Goal: goal, Pos: pos}
	vc.obls = append(vc.obls, o)
	return o
}

func sanitize(s string) string {
	var b strings.Builder
	for _, r := range s {
		switch {
		case r >= 'a' && r <= 'z', r >= 'A' && r <= 'Z', r >= '0' && r <= '9', r == '_', r == '.', r == '$':
			b.WriteRune(r)
		case r == '[':
			b.WriteByte('<')
		case r == ']':
			b.WriteByte('>')
		case r == '*':
			b.WriteString("ptr.")
		case r == '/':
			b.WriteByte('/')
		case r == ' ', r == ',', r == '(', r == ')', r == '{', r == '}', r == ';', r == '"', r == '|', r == '\\', r == '#', r == ':', r == '\'', r == '`':
			b.WriteByte('_')
		default:
			b.WriteByte('_')
		}
	}
	out := b.String()
	if out == "" || (out[0] >= '0' && out[0] <= '9') {
		out = "v" + out
	}
	return out
}

func sortTag(s Sort) string {
	r := strings.NewReplacer("(", "", ")", "", " ", "_")
	return r.Replace(s)
}

// ---- Go types to sorts ------------------------------------------------------------

func unalias(t types.Type) types.Type { return types.Unalias(t) }

func isFloat(t types.Type) bool {
	b, ok := unalias(t).Underlying().(*types.Basic)
	return ok && b.Info()&types.IsFloat != 0
}
func isInteger(t types.Type) bool {
	b, ok := unalias(t).Underlying().(*types.Basic)
	return ok && b.Info()&types.IsInteger != 0
}
func isString(t types.Type) bool {
	b, ok := unalias(t).Underlying().(*types.Basic)
	return ok && b.Info()&types.IsString != 0
}
func isBool(t types.Type) bool {
	b, ok := unalias(t).Underlying().(*types.Basic)
	return ok && b.Info()&types.IsBoolean != 0
}

type unsupported struct{ msg string }

func (u unsupported) Error() string { return u.msg }

func bail(f string, a ...any) { panic(unsupported{fmt.Sprintf(f, a...)}) }

func typeKey(t types.Type) string {
	return types.TypeString(t, func(p *types.Package) string { return p.Path() })
}

func shortTypeName(t types.Type) string {
	return types.TypeString(t, func(p *types.Package) string { return p.Name() })
}

func (vc *VC) sortOf(t types.Type) Sort {
	t = unalias(t)
	switch u := t.Underlying().(type) {
	case *types.Basic:
		switch {
		case u.Info()&types.IsBoolean != 0:
			return "Bool"
		case u.Info()&types.IsInteger != 0:
			return "Int"
		case u.Info()&types.IsFloat != 0:
			return "Real"
		case u.Info()&types.IsString != 0:
			return "Int"
		case u.Kind() == types.UnsafePointer, u.Kind() == types.UntypedNil:
			return "Int"
		}
		bail("unsupported basic type %s", t)
	case *types.Struct:
		return vc.structSort(t, u)
	case *types.Array:
		return "(Array Int " + vc.sortOf(u.Elem()) + ")"
	case *types.Slice:
		return "Slice"
	case *types.Pointer, *types.Map, *types.Chan, *types.Signature, *types.Interface:
		return "Int"
	case *types.Tuple:
		bail("tuple sort requested")
	case *types.TypeParam:
		bail("type parameter %s (uninstantiated generic)", t)
	}
	bail("unsupported type %s", t)
	return ""
}

func (vc *VC) structSort(t types.Type, u *types.Struct) Sort {
	key := typeKey(t)
	if _, ok := t.(*types.Named); !ok {
		key = "anon:" + typeKey(u)
	}
	if n, ok := vc.structName[key]; ok {
		return n
	}
	var name string
	if _, ok := t.(*types.Named); ok {
		name = sanitize(shortTypeName(t))
	} else {
		name = fmt.Sprintf("anon%d", len(vc.structName))
	}
	// uniqueness
	for _, v := range vc.structName {
		if v == name {
			name = fmt.Sprintf("%s_%d", name, len(vc.structName))
		}
	}
	vc.structName[key] = name
	var fields []string
	for i := 0; i < u.NumFields(); i++ {
		fs := vc.sortOf(u.Field(i).Type())
		fields = append(fields, fmt.Sprintf("(%s %s)", fieldSel(name, u, i), fs))
	}
	if len(fields) == 0 {
		fields = append(fields, fmt.Sprintf("(%s.unit Int)", name))
	}
	vc.decl("struct:"+name, fmt.Sprintf("(declare-datatypes ((%s 0)) (((mk.%s %s))))", name, name, strings.Join(fields, " ")))
	return name
}

func fieldSel(sname string, u *types.Struct, i int) string {
	fn := u.Field(i).Name()
	if fn == "_" {
		fn = fmt.Sprintf("blank%d", i)
	}
	return sname + "." + sanitize(fn)
}

func structOf(t types.Type) *types.Struct {
	u, _ := unalias(t).Underlying().(*types.Struct)
	return u
}

func (vc *VC) getField(x T, i int) T {
	u := structOf(x.GT)
	sn := vc.sortOf(x.GT)
	ft := u.Field(i).Type()
	return T{fmt.Sprintf("(%s %s)", fieldSel(sn, u, i), x.S), vc.sortOf(ft), ft}
}

func (vc *VC) setField(x T, i int, v T) T {
	u := structOf(x.GT)
	sn := vc.sortOf(x.GT)
	var parts []string
	for j := 0; j < u.NumFields(); j++ {
		if j == i {
			parts = append(parts, v.S)
		} else {
			parts = append(parts, fmt.Sprintf("(%s %s)", fieldSel(sn, u, j), x.S))
		}
	}
	return T{fmt.Sprintf("(mk.%s %s)", sn, strings.Join(parts, " ")), sn, x.GT}
}

func (vc *VC) mkStruct(t types.Type, fields []T) T {
	sn := vc.sortOf(t)
	var parts []string
	for _, f := range fields {
		parts = append(parts, f.S)
	}
	if len(parts) == 0 {
		parts = []string{"0"}
	}
	return T{fmt.Sprintf("(mk.%s %s)", sn, strings.Join(parts, " ")), sn, t}
}

func (vc *VC) zero(t types.Type) T {
	t = unalias(t)
	s := vc.sortOf(t)
	switch u := t.Underlying().(type) {
	case *types.Basic:
		switch s {
		case "Bool":
			return T{"false", s, t}
		case "Int":
			return T{"0", s, t}
		case "Real":
			return T{"0.0", s, t}
		}
	case *types.Struct:
		var fs []T
		for i := 0; i < u.NumFields(); i++ {
			fs = append(fs, vc.zero(u.Field(i).Type()))
		}
		return vc.mkStruct(t, fs)
	case *types.Array:
		return T{fmt.Sprintf("((as const %s) %s)", s, vc.zero(u.Elem()).S), s, t}
	case *types.Slice:
		return T{"(mk_slice 0 0 0 0)", s, t}
	default:
		return T{"0", s, t}
	}
	bail("zero of %s", t)
	return T{}
}

// validity returns the type invariant of a value (ranges of narrow integers, slice header sanity).
func (vc *VC) validity(x T, depth int) []string {
	if x.GT == nil {
		return nil
	}
	t := unalias(x.GT)
	switch u := t.Underlying().(type) {
	case *types.Basic:
		lo, hi, ok := intRange(u)
		if ok {
			var out []string
			if lo != "" {
				out = append(out, fmt.Sprintf("(<= %s %s)", lo, x.S))
			}
			if hi != "" {
				out = append(out, fmt.Sprintf("(<= %s %s)", x.S, hi))
			}
			return out
		}
		// strings are arbitrary integer identifiers ("" is 0): no range constraint
	case *types.Struct:
		if depth > 3 {
			return nil
		}
		var out []string
		for i := 0; i < u.NumFields(); i++ {
			out = append(out, vc.validity(vc.getField(x, i), depth+1)...)
		}
		return out
	case *types.Slice:
		return []string{
			fmt.Sprintf("(<= 0 (s_len %s))", x.S),
			fmt.Sprintf("(<= (s_len %s) (s_cap %s))", x.S, x.S),
			fmt.Sprintf("(<= 0 (s_off %s))", x.S),
			fmt.Sprintf("(<= 0 (s_arr %s))", x.S),
			fmt.Sprintf("(=> (= (s_arr %s) 0) (= (s_cap %s) 0))", x.S, x.S),
		}
	case *types.Pointer, *types.Map, *types.Chan, *types.Signature, *types.Interface:
		return []string{fmt.Sprintf("(<= 0 %s)", x.S)}
	}
	return nil
}

func intRange(b *types.Basic) (lo, hi string, ok bool) {
	switch b.Kind() {
	case types.Int8:
		return "(- 128)", "127", true
	case types.Int16:
		return "(- 32768)", "32767", true
	case types.Int32:
		return "(- 2147483648)", "2147483647", true
	case types.Uint8:
		return "0", "255", true
	case types.Uint16:
		return "0", "65535", true
	case types.Uint32:
		return "0", "4294967295", true
	case types.Uint, types.Uint64, types.Uintptr:
		return "0", "", true
	}
	return "", "", false
}

func intWidth(b *types.Basic) (bits int, signed bool, bounded bool) {
	switch b.Kind() {
	case types.Int8:
		return 8, true, true
	case types.Int16:
		return 16, true, true
	case types.Int32:
		return 32, true, true
	case types.Uint8:
		return 8, false, true
	case types.Uint16:
		return 16, false, true
	case types.Uint32:
		return 32, false, true
	case types.Uint, types.Uint64, types.Uintptr:
		return 64, false, false
	case types.Int, types.Int64, types.UntypedInt, types.UntypedRune:
		return 64, true, false
	}
	return 0, false, false
}

func and(parts ...string) string {
	var ps []string
	for _, p := range parts {
		if p == "true" || p == "" {
			continue
		}
		if p == "false" {
			return "false"
		}
		ps = append(ps, p)
	}
	if len(ps) == 0 {
		return "true"
	}
	if len(ps) == 1 {
		return ps[0]
	}
	return "(and " + strings.Join(ps, " ") + ")"
}

func or(parts ...string) string {
	var ps []string
	for _, p := range parts {
		if p == "false" || p == "" {
			continue
		}
		if p == "true" {
			return "true"
		}
		ps = append(ps, p)
	}
	if len(ps) == 0 {
		return "false"
	}
	if len(ps) == 1 {
		return ps[0]
	}
	return "(or " + strings.Join(ps, " ") + ")"
}

func not(p string) string {
	if p == "true" {
		return "false"
	}
	if p == "false" {
		return "true"
	}
	return "(not " + p + ")"
}

func implies(a, b string) string {
	if a == "true" {
		return b
	}
	if b == "true" {
		return "true"
	}
	return "(=> " + a + " " + b + ")"
}

func ite(c, a, b string) string {
	if c == "true" || a == b {
		return a
	}
	if c == "false" {
		return b
	}
	return "(ite " + c + " " + a + " " + b + ")"
}

func intLit(v int64) string {
	if v < 0 {
		return fmt.Sprintf("(- %d)", -v)
	}
	return fmt.Sprintf("%d", v)
}

func bigIntLit(v *big.Int) string {
	if v.Sign() < 0 {
		return "(- " + new(big.Int).Neg(v).String() + ")"
	}
	return v.String()
}

func ratLit(r *big.Rat) string {
	neg := r.Sign() < 0
	a := new(big.Rat).Abs(r)
	var s string
	if a.IsInt() {
		s = a.Num().String() + ".0"
	} else {
		s = "(/ " + a.Num().String() + ".0 " + a.Denom().String() + ".0)"
	}
	if neg {
		return "(- " + s + ")"
	}
	return s
}

// constTerm converts a go/constant value of Go type t.
func (vc *VC) constTerm(v constant.Value, t types.Type) T {
	if v == nil {
		return vc.zero(t)
	}
	s := vc.sortOf(t)
	switch s {
	case "Bool":
		if constant.BoolVal(v) {
			return T{"true", s, t}
		}
		return T{"false", s, t}
	case "Int":
		if isString(t) {
			return T{vc.P.strLit(constant.StringVal(v)), s, t}
		}
		iv := constant.ToInt(v)
		if iv.Kind() != constant.Int {
			bail("non-int constant %s for %s", v, t)
		}
		bi, ok := constant.Val(iv).(*big.Int)
		if !ok {
			i64, _ := constant.Int64Val(iv)
			return T{intLit(i64), s, t}
		}
		return T{bigIntLit(bi), s, t}
	case "Real":
		fv := constant.ToFloat(v)
		switch x := constant.Val(fv).(type) {
		case *big.Rat:
			return T{ratLit(x), s, t}
		case *big.Float:
			r, _ := x.Rat(nil)
			if r == nil {
				bail("non-finite float constant")
			}
			return T{ratLit(r), s, t}
		case int64:
			return T{ratLit(new(big.Rat).SetInt64(x)), s, t}
		case *big.Int:
			return T{ratLit(new(big.Rat).SetInt(x)), s, t}
		}
		bail("float constant %s", v)
	}
	bail("constant of sort %s", s)
	return T{}
}

// ---- heap array names ------------------------------------------------------------------

func (vc *VC) heapArr(elem Sort) string { // backing arrays of slices / arrays behind pointers
	n := "Arr_" + sortTag(elem)
	vc.regHeap(n, "(Array Int (Array Int "+elem+"))")
	return n
}
func (vc *VC) heapPtr(elem Sort) string {
	n := "Heap_" + sortTag(elem)
	vc.regHeap(n, "(Array Int "+elem+")")
	return n
}
func (vc *VC) heapDom(k Sort) string {
	n := "Dom_" + sortTag(k)
	vc.regHeap(n, "(Array Int (Array "+k+" Bool))")
	return n
}
func (vc *VC) heapVal(k, v Sort) string {
	n := "Val_" + sortTag(k) + "_" + sortTag(v)
	if vc.valK == nil {
		vc.valK, vc.valV = map[string]Sort{}, map[string]Sort{}
	}
	vc.valK[n], vc.valV[n] = k, v
	vc.regHeap(n, "(Array Int (Array "+k+" "+v+"))")
	return n
}
func (vc *VC) regHeap(n string, s Sort) {
	if _, ok := vc.heapNames[n]; !ok {
		vc.heapNames[n] = s
		vc.heapOrder = append(vc.heapOrder, n)
	}
}

// ---- rendering a query -----------------------------------------------------------------

// assumeDef records the definitional equality of a pure-function application (may be dropped by a
// racing solver instance: fewer assumptions is always sound for an unsat answer).
func (vc *VC) assumeDef(fact string) {
	vc.cmdDef[len(vc.cmds)] = 1
	vc.emit(fmt.Sprintf("(assert %s)", fact))
}

// assumeAxiomInstance: an instance of a library axiom (sqrt); dropped only by the "opaque" racer.
func (vc *VC) assumeAxiomInstance(fact string) {
	vc.cmdDef[len(vc.cmds)] = 2
	vc.emit(fmt.Sprintf("(assert %s)", fact))
}

func (vc *VC) hasDefs(o *Obligation) bool {
	for i := range vc.cmdDef {
		if i < o.At {
			return true
		}
	}
	return false
}

func (vc *VC) render(o *Obligation, wantModel bool) string {
	return vc.renderOpt(o, wantModel, renderFull)
}

const (
	renderFull    = 0 // pure calls are applications, definitional equalities asserted
	renderOpaque  = 1 // pure calls are applications, definitions dropped
	renderInlined = 2 // ground pure calls are their inlined bodies, definitional equalities dropped
)

func (vc *VC) renderOpt(o *Obligation, wantModel bool, mode int) string {
	dropDefs := mode != renderFull
	var b strings.Builder
	b.WriteString("(set-option :produce-models true)\n(set-logic ALL)\n")
	for _, d := range vc.decls {
		b.WriteString(d)
		b.WriteByte('\n')
	}
	for i, c := range vc.cmds[:o.At] {
		if k := vc.cmdDef[i]; k != 0 && dropDefs {
			if mode == renderOpaque || k == 1 {
				continue
			}
		}
		if mode == renderInlined {
			if alt, ok := vc.cmdAlt[i]; ok {
				c = alt
			}
		}
		b.WriteString(c)
		b.WriteByte('\n')
	}
	for _, c := range o.Extra {
		b.WriteString(c)
		b.WriteByte('\n')
	}
	if o.Reach != "" && o.Reach != "true" {
		fmt.Fprintf(&b, "(assert %s)\n", o.Reach)
	}
	fmt.Fprintf(&b, "(assert (not %s))\n", o.Goal)
	b.WriteString("(check-sat)\n")
	if wantModel && len(o.Values) > 0 {
		vals := append([]string(nil), o.Values...)
		sort.Strings(vals)
		fmt.Fprintf(&b, "(get-value (%s))\n", strings.Join(vals, " "))
	}
	return b.String()
}

// at: element i of slice s in heap array h, as a function symbol with the index as a direct
// argument (so that quantified facts about s[i] match ground accesses whatever arithmetic form the
// index has). Defined by a triggered axiom.
func (vc *VC) at(elem Sort, h, sl, idx string) string {
	name := "at." + sortTag(elem)
	vc.decl(name, fmt.Sprintf("(declare-fun %s ((Array Int (Array Int %s)) Slice Int) %s)", name, elem, elem))
	vc.decl(name+"_def", fmt.Sprintf("(assert (forall ((h (Array Int (Array Int %s))) (s Slice) (i Int)) (! (= (%s h s i) (select (select h (s_arr s)) (+ (s_off s) i))) :pattern ((%s h s i)))))", elem, name, name))
	return fmt.Sprintf("(%s %s %s %s)", name, h, sl, idx)
}

func (vc *VC) declCount() {
	vc.decl("cntTrue", "(declare-fun cntTrue (Int (Array Int Bool) Int Int) Int)")
	vc.decl("cntTrue_syn", "(assert (forall ((f Int) (a (Array Int Bool)) (o Int) (n Int)) (! (= (cntTrue f a o n) (cntTrue 0 a o n)) :pattern ((cntTrue f a o n)))))")
	vc.decl("cntTrue_def", "(assert (forall ((f Int) (a (Array Int Bool)) (o Int) (n Int)) (! (=> (> f 0) (= (cntTrue f a o n) (ite (<= n 0) 0 (+ (cntTrue (- f 1) a o (- n 1)) (ite (select a (+ o (- n 1))) 1 0))))) :pattern ((cntTrue f a o n)))))")
	vc.decl("cntTrue_mono", "(assert (forall ((f Int) (g Int) (a (Array Int Bool)) (o Int) (n1 Int) (n2 Int)) (! (=> (and (<= 0 n1) (<= n1 n2)) (<= (cntTrue f a o n1) (cntTrue g a o n2))) :pattern ((cntTrue f a o n1) (cntTrue g a o n2)))))")
	vc.assumedStd["count(s, n) (true entries among s[0..n)): recursive definition unfolded by fuel-limited axioms; 0 <= count <= n and monotonicity in n are assumed lemmas"] = true
	vc.decl("cntTrue_rng", "(assert (forall ((f Int) (a (Array Int Bool)) (o Int) (n Int)) (! (and (<= 0 (cntTrue f a o n)) (=> (>= n 0) (<= (cntTrue f a o n) n))) :pattern ((cntTrue f a o n)))))")
}

// mhas / mval: map membership and lookup as function symbols over (heap version, map reference, key),
// defined by triggered axioms; helper frame axioms are emitted wherever a new heap version is created,
// so that quantified facts about one version reach terms of another by E-matching.
func (vc *VC) mhas(ks Sort, dom, m, k string) string {
	name := "mhas." + sortTag(ks)
	vc.decl(name, fmt.Sprintf("(declare-fun %s ((Array Int (Array %s Bool)) Int %s) Bool)", name, ks, ks))
	vc.decl(name+"_def", fmt.Sprintf("(assert (forall ((d (Array Int (Array %s Bool))) (m Int) (k %s)) (! (= (%s d m k) (select (select d m) k)) :pattern ((%s d m k)))))", ks, ks, name, name))
	return fmt.Sprintf("(%s %s %s %s)", name, dom, m, k)
}

func (vc *VC) mval(ks, vs Sort, val, m, k string) string {
	name := "mval." + sortTag(ks) + "." + sortTag(vs)
	vc.decl(name, fmt.Sprintf("(declare-fun %s ((Array Int (Array %s %s)) Int %s) %s)", name, ks, vs, ks, vs))
	vc.decl(name+"_def", fmt.Sprintf("(assert (forall ((d (Array Int (Array %s %s))) (m Int) (k %s)) (! (= (%s d m k) (select (select d m) k)) :pattern ((%s d m k)))))", ks, vs, ks, name, name))
	return fmt.Sprintf("(%s %s %s %s)", name, val, m, k)
}

// mapSorts parses Dom_<K> / Val_<K>_<V> heap sorts.
func (vc *VC) mapSortsOf(name string) (ks, vs Sort, isDom, ok bool) {
	srt := vc.heapNames[name]
	if strings.HasPrefix(name, "Dom_") {
		// (Array Int (Array K Bool))
		inner := srt[len("(Array Int (Array ") : len(srt)-2]
		return strings.TrimSuffix(inner, " Bool"), "Bool", true, true
	}
	if strings.HasPrefix(name, "Val_") {
		return vc.valK[name], vc.valV[name], false, true
	}
	return "", "", false, false
}

// mapOthersUnchanged: forall m k :: cond(m) ==> f(newH, m, k) == f(oldH, m, k)   (f = mhas or mval)
func (vc *VC) mapOthersUnchanged(name, newH, oldH, cond string) {
	ks, vs, isDom, ok := vc.mapSortsOf(name)
	if !ok || len(vc.capStack) > 0 {
		return
	}
	var an, ao string
	if isDom {
		an, ao = vc.mhas(ks, newH, "m", "k"), vc.mhas(ks, oldH, "m", "k")
	} else {
		an, ao = vc.mval(ks, vs, newH, "m", "k"), vc.mval(ks, vs, oldH, "m", "k")
	}
	vc.emit(fmt.Sprintf("(assert (forall ((m Int) (k %s)) (! (=> %s (= %s %s)) :pattern (%s))))", ks, cond, an, ao, an))
}
