package main

import (
	"fmt"
	"go/ast"
	"go/token"
	"go/types"
	"os"
	"sort"
	"strings"

	"golang.org/x/tools/go/packages"
	"golang.org/x/tools/go/ssa"
	"golang.org/x/tools/go/ssa/ssautil"
)

type Program struct {
	Fset     *token.FileSet
	Pkgs     []*packages.Package
	AllPkgs  map[string]*packages.Package
	SSA      *ssa.Program
	SSAPkgs  map[string]*ssa.Package
	Cs       *Contracts
	Module   string
	strs     map[string]int
	strList  []string
	fnByKey  map[string][]*ssa.Function // pkg::key -> functions (instantiations for generics)
	keyOfFn  map[*ssa.Function]string
	allFuncs map[*ssa.Function]bool
	constErr map[*ssa.Global]bool
	Known    []KnownFinding
	locals   localsRegistry
	renames  map[string]bool
}

func (p *Program) strLit(s string) string {
	if s == "" {
		return "0"
	}
	if id, ok := p.strs[s]; ok {
		return fmt.Sprintf("%d", id)
	}
	id := len(p.strs) + 1
	p.strs[s] = id
	p.strList = append(p.strList, s)
	return fmt.Sprintf("%d", id)
}

func loadProgram(repoDir string, patterns []string) (*Program, error) {
	cfg := &packages.Config{
		Mode: packages.NeedName | packages.NeedFiles | packages.NeedCompiledGoFiles | packages.NeedImports |
			packages.NeedDeps | packages.NeedTypes | packages.NeedSyntax | packages.NeedTypesInfo | packages.NeedTypesSizes | packages.NeedModule,
		Dir:        repoDir,
		BuildFlags: []string{"-tags=verif"},
		Env:        append(os.Environ(), "GOFLAGS=-mod=mod", "GOPROXY=off", "GOSUMDB=off", "GOTOOLCHAIN=local"),
	}
	pkgs, err := packages.Load(cfg, patterns...)
	if err != nil {
		return nil, err
	}
	var errs []string
	packages.Visit(pkgs, nil, func(p *packages.Package) {
		for _, e := range p.Errors {
			errs = append(errs, e.Error())
		}
	})
	if len(errs) > 0 {
		return nil, fmt.Errorf("package load errors: %s", strings.Join(errs, "; "))
	}
	prog, spkgs := ssautil.AllPackages(pkgs, ssa.InstantiateGenerics|ssa.GlobalDebug)
	prog.Build()
	p := &Program{Fset: prog.Fset, Pkgs: pkgs, SSA: prog, SSAPkgs: map[string]*ssa.Package{}, AllPkgs: map[string]*packages.Package{},
		constErr: map[*ssa.Global]bool{}, strs: map[string]int{}, fnByKey: map[string][]*ssa.Function{}, keyOfFn: map[*ssa.Function]string{}}
	_ = spkgs
	packages.Visit(pkgs, nil, func(pp *packages.Package) {
		p.AllPkgs[pp.PkgPath] = pp
	})
	for _, sp := range prog.AllPackages() {
		p.SSAPkgs[sp.Pkg.Path()] = sp
	}
	if len(pkgs) > 0 && pkgs[0].Module != nil {
		p.Module = pkgs[0].Module.Path
	}
	p.allFuncs = ssautil.AllFunctions(prog)
	for fn := range p.allFuncs {
		k := funcKey(fn)
		if k == "" {
			continue
		}
		p.fnByKey[k] = append(p.fnByKey[k], fn)
		p.keyOfFn[fn] = k
	}
	for _, fs := range p.fnByKey {
		sort.Slice(fs, func(i, j int) bool { return fs[i].String() < fs[j].String() })
	}
	return p, nil
}

// funcKey computes "pkgpath::Recv.Name" / "pkgpath::Name" / with $n suffixes for closures.
// Generic instantiations map to the key of their origin.
func funcKey(fn *ssa.Function) string {
	if fn.Synthetic != "" && fn.Origin() == nil && fn.Parent() == nil {
		// wrappers, thunks, bounds, init
		if !strings.HasPrefix(fn.Synthetic, "instance of") {
			return ""
		}
	}
	// closures
	if fn.Parent() != nil {
		pk := funcKey(fn.Parent())
		if pk == "" {
			return ""
		}
		// name is like Outer$1 ; take suffix after parent's name
		name := fn.Name()
		idx := strings.LastIndex(name, "$")
		if idx < 0 {
			return ""
		}
		return pk + name[idx:]
	}
	base := fn
	if o := fn.Origin(); o != nil {
		base = o
	}
	var pkgPath string
	if base.Pkg != nil {
		pkgPath = base.Pkg.Pkg.Path()
	} else if base.Object() != nil && base.Object().Pkg() != nil {
		pkgPath = base.Object().Pkg().Path()
	} else {
		return ""
	}
	name := base.Name()
	if recv := base.Signature.Recv(); recv != nil {
		rt := recv.Type()
		if p, ok := rt.(*types.Pointer); ok {
			rt = p.Elem()
		}
		rt = unalias(rt)
		if n, ok := rt.(*types.Named); ok {
			return pkgPath + "::" + n.Obj().Name() + "." + name
		}
		return ""
	}
	return pkgPath + "::" + name
}

func (p *Program) contractFor(fn *ssa.Function) *FuncContract {
	k, ok := p.keyOfFn[fn]
	if !ok {
		k = funcKey(fn)
	}
	if k == "" {
		return nil
	}
	return p.Cs.Funcs[k]
}

func (p *Program) pos(pos token.Pos) string {
	if !pos.IsValid() {
		return ""
	}
	ps := p.Fset.Position(pos)
	return fmt.Sprintf("%s:%d", ps.Filename, ps.Line)
}

// displayName: pkgname.(Recv).Func style names for obligations.
func displayName(fn *ssa.Function) string {
	k := funcKey(fn)
	if k == "" {
		return fn.String()
	}
	i := strings.Index(k, "::")
	pkgPath, key := k[:i], k[i+2:]
	pkgName := pkgPath
	if j := strings.LastIndex(pkgPath, "/"); j >= 0 {
		pkgName = pkgPath[j+1:]
	}
	inst := ""
	if fn.Origin() != nil || (fn.Parent() != nil && rootOf(fn).Origin() != nil) {
		r := rootOf(fn)
		if len(r.TypeArgs()) > 0 {
			var as []string
			for _, a := range r.TypeArgs() {
				as = append(as, shortTypeName(a))
			}
			inst = "[" + strings.Join(as, ",") + "]"
		}
	}
	if dot := strings.Index(key, "."); dot >= 0 && !strings.Contains(key[:dot], "$") {
		return fmt.Sprintf("%s.(%s).%s%s", pkgName, key[:dot], key[dot+1:], inst)
	}
	return pkgName + "." + key + inst
}

func rootOf(fn *ssa.Function) *ssa.Function {
	for fn.Parent() != nil {
		fn = fn.Parent()
	}
	return fn
}

// ---- natural loops --------------------------------------------------------------------------

type Loop struct {
	Header  *ssa.BasicBlock
	Blocks  map[*ssa.BasicBlock]bool
	Latches []*ssa.BasicBlock
	Parent  *Loop
	Ordinal int // 1-based source ordinal (0: unmatched)
	Depth   int
}

func findLoops(fn *ssa.Function) []*Loop {
	byHeader := map[*ssa.BasicBlock]*Loop{}
	for _, b := range fn.Blocks {
		for _, s := range b.Succs {
			if s.Dominates(b) { // back edge b -> s
				l := byHeader[s]
				if l == nil {
					l = &Loop{Header: s, Blocks: map[*ssa.BasicBlock]bool{s: true}}
					byHeader[s] = l
				}
				l.Latches = append(l.Latches, b)
				// collect natural loop body
				stack := []*ssa.BasicBlock{b}
				for len(stack) > 0 {
					x := stack[len(stack)-1]
					stack = stack[:len(stack)-1]
					if l.Blocks[x] {
						continue
					}
					l.Blocks[x] = true
					stack = append(stack, x.Preds...)
				}
			}
		}
	}
	var loops []*Loop
	for _, l := range byHeader {
		loops = append(loops, l)
	}
	sort.Slice(loops, func(i, j int) bool { return loops[i].Header.Index < loops[j].Header.Index })
	for _, l := range loops {
		for _, m := range loops {
			if m != l && m.Blocks[l.Header] && len(m.Blocks) > len(l.Blocks) {
				if l.Parent == nil || len(m.Blocks) < len(l.Parent.Blocks) {
					l.Parent = m
				}
			}
		}
	}
	for _, l := range loops {
		d := 0
		for q := l.Parent; q != nil; q = q.Parent {
			d++
		}
		l.Depth = d
	}
	return loops
}

type astLoop struct {
	node  ast.Node
	depth int
	isFor bool
}

func astLoops(fn *ssa.Function) []astLoop {
	var body *ast.BlockStmt
	switch n := fn.Syntax().(type) {
	case *ast.FuncDecl:
		body = n.Body
	case *ast.FuncLit:
		body = n.Body
	}
	if body == nil {
		return nil
	}
	var out []astLoop
	var walk func(n ast.Node, depth int)
	walk = func(n ast.Node, depth int) {
		ast.Inspect(n, func(x ast.Node) bool {
			if x == nil || x == n {
				return true
			}
			switch s := x.(type) {
			case *ast.FuncLit:
				return false
			case *ast.ForStmt:
				out = append(out, astLoop{s, depth, true})
				if s.Init != nil {
					walk(s.Init, depth)
				}
				if s.Cond != nil {
					walk(s.Cond, depth)
				}
				if s.Post != nil {
					walk(s.Post, depth)
				}
				walk(s.Body, depth+1)
				return false
			case *ast.RangeStmt:
				out = append(out, astLoop{s, depth, false})
				walk(s.X, depth)
				walk(s.Body, depth+1)
				return false
			}
			return true
		})
	}
	walk(body, 0)
	return out
}

// matchLoops assigns source ordinals to SSA loops. Returns an error if the shapes disagree.
func matchLoops(fn *ssa.Function, loops []*Loop) error {
	als := astLoops(fn)
	// SSA loops sorted by header index = creation order = source pre-order.
	j := 0
	for _, l := range loops {
		c := l.Header.Comment
		isFor := strings.HasPrefix(c, "for.")
		isRange := strings.HasPrefix(c, "range")
		matched := false
		for j < len(als) {
			a := als[j]
			j++
			if (a.isFor && isFor || !a.isFor && isRange) && a.depth == l.Depth {
				if !positionsInside(fn, l, a.node) {
					continue
				}
				l.Ordinal = j
				matched = true
				break
			}
			// an AST loop without a back edge (body always leaves): skip it
		}
		if !matched {
			return fmt.Errorf("cannot match SSA loop at block %d (%s) of %s to a source loop", l.Header.Index, c, fn)
		}
	}
	return nil
}

func positionsInside(fn *ssa.Function, l *Loop, n ast.Node) bool {
	for b := range l.Blocks {
		for _, in := range b.Instrs {
			switch in.(type) {
			case *ssa.Phi, *ssa.DebugRef:
				continue
			}
			p := in.Pos()
			if p.IsValid() && (p < n.Pos() || p > n.End()) {
				// instructions of deferred/other positions are not expected inside loops
				return false
			}
		}
	}
	return true
}

// globalIsConstErr: a package-level variable of type error whose only store in the whole program is in
// its package initialiser, with a value produced by errors.New or fmt.Errorf.
func (p *Program) globalIsConstErr(g *ssa.Global) bool {
	if v, ok := p.constErr[g]; ok {
		return v
	}
	res := false
	defer func() { p.constErr[g] = res }()
	pt, ok := g.Type().(*types.Pointer)
	if !ok || pt.Elem().String() != "error" {
		return false
	}
	stores := 0
	good := false
	for fn := range p.allFuncs {
		if fn.Pkg != g.Pkg {
			continue
		}
		for _, b := range fn.Blocks {
			for _, in := range b.Instrs {
				st, ok := in.(*ssa.Store)
				if !ok || st.Addr != ssa.Value(g) {
					continue
				}
				stores++
				if fn.Name() == "init" {
					if c, ok := st.Val.(*ssa.Call); ok {
						if callee := c.Common().StaticCallee(); callee != nil {
							n := callee.String()
							if n == "errors.New" || n == "fmt.Errorf" {
								good = true
							}
						}
					}
				}
			}
		}
	}
	res = stores == 1 && good
	return res
}
