package main

import (
	_ "golang.org/x/tools/go/packages"
	_ "golang.org/x/tools/go/ssa"
	_ "golang.org/x/tools/go/ssa/ssautil"
)

func main() {}
