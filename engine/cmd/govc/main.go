package main

import (
	"encoding/json"
	"flag"
	"fmt"
	"go/types"
	"os"
	"path/filepath"
	"sort"
	"strconv"
	"strings"
	"time"

	"golang.org/x/tools/go/ssa"
)

type options struct {
	repo, verif, prop, tier, unit, dump       string
	list, updateRegistry, verbose, noEvidence bool
	timeout                                   time.Duration
	seed                                      int
	workers                                   int
}

func main() {
	var o options
	flag.StringVar(&o.repo, "repo", "/repo", "repository under verification")
	flag.StringVar(&o.verif, "verif", "/verif", "verification directory")
	flag.StringVar(&o.prop, "prop", "", "property id (e.g. C17); empty: all units")
	flag.StringVar(&o.tier, "tier", "", "quick | thorough (default from VERIF_TIER or quick)")
	flag.StringVar(&o.unit, "unit", "", "only units whose name contains this string")
	flag.StringVar(&o.dump, "dump", "", "keep SMT files in this directory")
	flag.BoolVar(&o.list, "list", false, "list units and obligations without solving")
	flag.BoolVar(&o.updateRegistry, "update-registry", false, "rewrite contracts/registry.json for the property from this run")
	flag.BoolVar(&o.verbose, "v", false, "verbose")
	flag.BoolVar(&o.noEvidence, "noevidence", false, "do not write evidence/replay files (selftest runs)")
	flag.IntVar(&o.workers, "workers", 8, "concurrent obligations")
	flag.Parse()
	if o.tier == "" {
		o.tier = os.Getenv("VERIF_TIER")
	}
	if o.tier != "thorough" {
		o.tier = "quick"
	}
	if s := os.Getenv("VERIF_SEED"); s != "" {
		o.seed, _ = strconv.Atoi(s)
	}
	o.timeout = 15 * time.Second
	if o.tier == "thorough" {
		o.timeout = 60 * time.Second
	}
	os.Exit(run(&o))
}

type propConfig struct {
	Packages []string `json:"packages"`
}

func run(o *options) int {
	start := time.Now()
	undecided := func(f string, a ...any) int {
		fmt.Printf("UNDECIDED property=%s %s\n", o.prop, fmt.Sprintf(f, a...))
		return 2
	}
	// which packages to load
	cfgAll := map[string]propConfig{}
	if data, err := os.ReadFile(filepath.Join(o.verif, "contracts", "packages.json")); err == nil {
		_ = json.Unmarshal(data, &cfgAll)
	}
	patterns := []string{"./..."}
	if pc, ok := cfgAll[o.prop]; ok && len(pc.Packages) > 0 {
		patterns = pc.Packages
	}
	p, err := loadProgram(o.repo, patterns)
	if err != nil {
		return undecided("cannot load %s: %v", o.repo, err)
	}
	cs, err := loadContracts(o.repo, p.Module, filepath.Join(o.verif, "contracts", "ext"))
	if err != nil {
		return undecided("cannot read contracts: %v", err)
	}
	p.Cs = cs
	p.Known = loadKnown(o.verif)
	p.locals = loadLocals(o.verif)
	loadSecs := time.Since(start).Seconds()

	// select units
	var units []*UnitResult
	wants := func(props []string) bool {
		if o.prop == "" {
			return true
		}
		for _, q := range props {
			if q == o.prop {
				return true
			}
		}
		return false
	}
	var keys []string
	for k := range cs.Funcs {
		keys = append(keys, k)
	}
	sort.Strings(keys)
	var missing []string
	for _, k := range keys {
		fc := cs.Funcs[k]
		if !wants(fc.Props) {
			continue
		}
		fns := p.fnByKey[k]
		if len(fns) == 0 {
			if o.prop != "" {
				missing = append(missing, k)
			}
			continue
		}
		for _, fn := range fns {
			if isGenericTemplate(fn) {
				continue
			}
			if o.unit != "" && !strings.Contains(displayName(fn), o.unit) {
				continue
			}
			u := verifyFunc(p, fn, fc)
			units = append(units, u)
		}
	}
	for _, cn := range cs.Censuses {
		if !wants(cn.Props) || o.unit != "" && !strings.Contains("census", o.unit) {
			continue
		}
		units = append(units, verifyCensus(p, cn))
	}
	for _, lm := range cs.Lemmas {
		if !wants(lm.Props) {
			continue
		}
		if o.unit != "" && !strings.Contains(lm.Name, o.unit) {
			continue
		}
		units = append(units, verifyLemma(p, lm))
	}
	// pure functions used by these units are verified stand-alone too (safe.*, frame.*, own ensures)
	if o.unit == "" {
		done := map[*ssa.Function]bool{}
		for _, u := range units {
			if u.fn != nil {
				done[u.fn] = true
			}
		}
		for i := 0; i < len(units); i++ {
			u := units[i]
			if u.VC == nil {
				continue
			}
			var fns []*ssa.Function
			for fn := range u.VC.pureFns {
				fns = append(fns, fn)
			}
			sort.Slice(fns, func(a, b int) bool { return fns[a].String() < fns[b].String() })
			for _, fn := range fns {
				if done[fn] {
					continue
				}
				done[fn] = true
				fc := p.contractFor(fn)
				if fc == nil {
					continue
				}
				nu := verifyFunc(p, fn, fc)
				if o.prop != "" {
					nu.Props = append(append([]string{}, nu.Props...), o.prop)
				}
				units = append(units, nu)
			}
		}
	}
	// C01: repository functions called without a contract are checked frame-only too (transitively),
	// so that a helper which writes through its arguments is not silently trusted
	if o.unit == "" && o.prop == "C01" {
		done := map[*ssa.Function]bool{}
		for _, u := range units {
			if u.fn != nil {
				done[u.fn] = true
			}
		}
		for i := 0; i < len(units); i++ {
			u := units[i]
			if u.VC == nil {
				continue
			}
			var fns []*ssa.Function
			for fn := range u.VC.uncontracted {
				fns = append(fns, fn)
			}
			sort.Slice(fns, func(a, b int) bool { return fns[a].String() < fns[b].String() })
			for _, fn := range fns {
				if done[fn] || fn.Pkg == nil || !strings.HasPrefix(fn.Pkg.Pkg.Path(), p.Module) || len(fn.Blocks) == 0 {
					continue
				}
				if !implicitFrameCandidate(p, fn) {
					continue
				}
				done[fn] = true
				fc := &FuncContract{Pkg: fn.Pkg.Pkg.Path(), Key: fn.Name(), Props: []string{"C01"}, FrameOnly: true, Loops: map[int]*LoopContract{}}
				nu := verifyFunc(p, fn, fc)
				nu.Name += " (implicit frame-only)"
				units = append(units, nu)
			}
		}
	}
	if len(missing) > 0 {
		return undecided("contracts for functions that no longer exist: %s", strings.Join(missing, ", "))
	}
	if len(units) == 0 {
		return undecided("no verification units for this property")
	}
	genSecs := time.Since(start).Seconds() - loadSecs

	if o.list {
		for _, u := range units {
			fmt.Printf("unit %s", u.Name)
			if u.Err != "" {
				fmt.Printf("  ERROR %s", u.Err)
			}
			fmt.Println()
			if u.VC != nil {
				for _, ob := range u.VC.obls {
					fmt.Printf("    %s\n", ob.Name)
				}
			}
		}
		return 0
	}

	dir := o.dump
	if dir == "" {
		dir, err = os.MkdirTemp("", "govc-")
		if err != nil {
			return undecided("tempdir: %v", err)
		}
		defer os.RemoveAll(dir)
	} else {
		os.MkdirAll(dir, 0o755)
	}
	if o.updateRegistry {
		reg := loadLocals(o.verif)
		for _, u := range units {
			if u.fn != nil && !u.Stale {
				fn := u.fn
				if fn.Origin() != nil {
					fn = fn.Origin()
				}
				if k := p.keyOfFn[fn]; k != "" {
					reg[k] = localDefs(fn)
				} else if k := p.keyOfFn[u.fn]; k != "" {
					reg[k] = localDefs(u.fn)
				}
			}
		}
		saveLocals(o.verif, reg)
	}
	for r := range p.renames {
		fmt.Printf("NOTE: %s\n", r)
	}
	solveStart := time.Now()
	dischargeAll(units, dir, o.timeout, o.seed, o.workers, o.prop)
	solveSecs := time.Since(solveStart).Seconds()

	return report(o, p, units, loadSecs, genSecs, solveSecs, time.Since(start).Seconds())
}

func isGenericTemplate(fn *ssa.Function) bool {
	r := rootOf(fn)
	return r.TypeParams() != nil && r.TypeParams().Len() > 0 && len(r.TypeArgs()) == 0
}

// implicitFrameCandidate: helpers of the mesh / format packages that take no pointer- or map-typed
// parameter (objects they are meant to fill in) — only those are checked frame-only implicitly.
func implicitFrameCandidate(p *Program, fn *ssa.Function) bool {
	path := fn.Pkg.Pkg.Path()
	rel := strings.TrimPrefix(path, p.Module)
	if !(strings.HasPrefix(rel, "/modeling") || strings.HasPrefix(rel, "/formats")) || strings.HasPrefix(rel, "/formats/txt") {
		return false
	}
	for _, prm := range fn.Params {
		switch unalias(prm.Type()).Underlying().(type) {
		case *types.Pointer, *types.Map, *types.Interface, *types.Signature:
			return false
		}
	}
	return len(fn.FreeVars) == 0
}
