package main

// Evaluation of specification expressions into SMT terms.

import (
	"fmt"
	"go/ast"
	"os"
	"go/constant"
	"go/types"
	"math"
	"math/big"
	"regexp"
	"sort"
	"strconv"
	"strings"

	"golang.org/x/tools/go/ssa"
)

type staleErr struct{ msg string }

func (s staleErr) Error() string { return s.msg }

func stale(f string, a ...any) { panic(staleErr{fmt.Sprintf(f, a...)}) }

type Env struct {
	vc          *VC
	fr          *frame
	pkg         *types.Package
	vars        map[string]T
	varAddrs    map[string]*addr
	st, old     *state
	next0       string
	phiOverride map[*ssa.Phi]T
	atBlock     *ssa.BasicBlock
	calleeScope bool
	atBlockEnd  bool // atBlock is a point at the END of that block (step clauses): its own definitions are visible
	prevEnv     *Env // loop step clauses: prev(e) evaluates e at the head of the current iteration
	qdepth      int
	cbs         map[string]*CallbackSpec // callback kinds of the contract being evaluated (nil: the frame's)
}

func (fr *frame) specEnv(st *state, extra map[string]T) *Env {
	vars := map[string]T{}
	for k, v := range fr.params {
		vars[k] = v
	}
	for k, v := range extra {
		vars[k] = v
	}
	return &Env{vc: fr.vc, fr: fr, pkg: pkgOf(fr.fn), vars: vars, varAddrs: fr.paramA, st: st, old: fr.entry, next0: fr.next0}
}

func (ev *Env) with(vars map[string]T) *Env {
	n := *ev
	n.vars = map[string]T{}
	for k, v := range ev.vars {
		n.vars[k] = v
	}
	for k, v := range vars {
		n.vars[k] = v
	}
	return &n
}

func (ev *Env) evalBool(e Expr) string {
	t := ev.eval(e)
	if t.Sort != "Bool" {
		stale("expected boolean expression, got sort %s", t.Sort)
	}
	return t.S
}

var untypedInt = types.Typ[types.UntypedInt]
var untypedFloat = types.Typ[types.UntypedFloat]

func isUntypedNum(t T) bool {
	return t.GT == untypedInt || t.GT == untypedFloat
}

// coerce makes numeric literal operands agree in sort.
func (ev *Env) coerce(a, b T) (T, T) {
	if a.Sort == "Real" && b.Sort == "Real" {
		// an untyped constant meeting a typed float64 value takes float64's value (as in Go)
		if a.GT == untypedFloat && b.GT != untypedFloat {
			a = roundConst(a, b.GT)
		} else if b.GT == untypedFloat && a.GT != untypedFloat {
			b = roundConst(b, a.GT)
		}
	}
	if a.Sort == b.Sort {
		return a, b
	}
	if a.Sort == "Int" && b.Sort == "Real" && a.GT == untypedInt {
		return T{toRealLit(a.S), "Real", b.GT}, b
	}
	if b.Sort == "Int" && a.Sort == "Real" && b.GT == untypedInt {
		return a, T{toRealLit(b.S), "Real", a.GT}
	}
	stale("operands of different sorts: %s : %s  vs  %s : %s (use real(x) / int(x))", a.S, a.Sort, b.S, b.Sort)
	return a, b
}

// litRat parses the literal forms produced by ratLit / bigIntLit.
func litRat(s string) (*big.Rat, bool) {
	nodes, err := parseSx(s)
	if err != nil || len(nodes) != 1 {
		return nil, false
	}
	return sxRat(nodes[0])
}

// roundConst rounds a constant term to the nearest float64 (float32 if the other operand is one).
func roundConst(c T, to types.Type) T {
	r, ok := litRat(c.S)
	if !ok {
		return c
	}
	f, _ := r.Float64()
	if b, isB := unalias(to).Underlying().(*types.Basic); isB && b.Kind() == types.Float32 {
		f32, _ := r.Float32()
		f = float64(f32)
	}
	if math.IsInf(f, 0) || math.IsNaN(f) {
		return c
	}
	rr := new(big.Rat)
	rr.SetFloat64(f)
	return T{ratLit(rr), "Real", to}
}

func toRealLit(s string) string {
	isDigits := func(x string) bool {
		if x == "" {
			return false
		}
		for _, c := range x {
			if c < '0' || c > '9' {
				return false
			}
		}
		return true
	}
	if isDigits(s) {
		return s + ".0"
	}
	if strings.HasPrefix(s, "(- ") && isDigits(strings.TrimSuffix(s[3:], ")")) {
		return "(- " + strings.TrimSuffix(s[3:], ")") + ".0)"
	}
	return "(to_real " + s + ")"
}

func (ev *Env) eval(e Expr) T {
	vc := ev.vc
	switch x := e.(type) {
	case *EBool:
		if x.Val {
			return T{"true", "Bool", types.Typ[types.Bool]}
		}
		return T{"false", "Bool", types.Typ[types.Bool]}
	case *ENum:
		if x.IsFloat {
			r, ok := new(big.Rat).SetString(x.Text)
			if !ok {
				stale("bad number %s", x.Text)
			}
			return T{ratLit(r), "Real", untypedFloat}
		}
		v, ok := new(big.Int).SetString(x.Text, 0)
		if !ok {
			stale("bad number %s", x.Text)
		}
		return T{bigIntLit(v), "Int", untypedInt}
	case *EStr:
		return T{vc.P.strLit(x.Val), "Int", types.Typ[types.String]}
	case *EIdent:
		return ev.ident(x.Name)
	case *EUnary:
		v := ev.eval(x.X)
		switch x.Op {
		case "!":
			return T{not(v.S), "Bool", v.GT}
		case "-":
			return T{fmt.Sprintf("(- %s)", v.S), v.Sort, v.GT}
		}
	case *EBinary:
		return ev.binary(x)
	case *ECond:
		c := ev.evalBool(x.C)
		a := ev.eval(x.A)
		b := ev.eval(x.B)
		a, b = ev.coerce(a, b)
		return T{ite(c, a.S, b.S), a.Sort, a.GT}
	case *ELet:
		v := ev.eval(x.Val)
		if len(v.S) > 24 {
			v = T{vc.define("let_"+sanitize(x.Name), v.Sort, v.S), v.Sort, v.GT}
		}
		return ev.with(map[string]T{x.Name: v}).eval(x.Body)
	case *EQuant:
		return ev.quant(x)
	case *ECall:
		return ev.call(x)
	case *EIndex:
		return ev.index(ev.eval(x.X), ev.eval(x.I))
	case *ESlice:
		s := ev.eval(x.X)
		if s.Sort != "Slice" {
			stale("slice expression on non-slice")
		}
		lo := "0"
		if x.Lo != nil {
			lo = ev.eval(x.Lo).S
		}
		hi := fmt.Sprintf("(s_len %s)", s.S)
		if x.Hi != nil {
			hi = ev.eval(x.Hi).S
		}
		return T{fmt.Sprintf("(mk_slice (s_arr %s) (+ (s_off %s) %s) (- %s %s) (- (s_cap %s) %s))", s.S, s.S, lo, hi, lo, s.S, lo), "Slice", s.GT}
	case *ESel:
		return ev.sel(x)
	}
	stale("cannot evaluate expression %T", e)
	return T{}
}

func (ev *Env) binary(x *EBinary) T {
	switch x.Op {
	case "&&":
		return T{and(ev.evalBool(x.X), ev.evalBool(x.Y)), "Bool", types.Typ[types.Bool]}
	case "||":
		return T{or(ev.evalBool(x.X), ev.evalBool(x.Y)), "Bool", types.Typ[types.Bool]}
	case "==>":
		return T{implies(ev.evalBool(x.X), ev.evalBool(x.Y)), "Bool", types.Typ[types.Bool]}
	case "<==>":
		return T{fmt.Sprintf("(= %s %s)", ev.evalBool(x.X), ev.evalBool(x.Y)), "Bool", types.Typ[types.Bool]}
	}
	a := ev.eval(x.X)
	b := ev.eval(x.Y)
	// exact folding of constant sub-expressions (untyped constant arithmetic is exact in Go)
	if isUntypedNum(a) && isUntypedNum(b) && (x.Op == "+" || x.Op == "-" || x.Op == "*" || x.Op == "/") && (a.GT == untypedFloat || b.GT == untypedFloat) {
		ra, ok1 := litRat(a.S)
		rb, ok2 := litRat(b.S)
		if ok1 && ok2 && !(x.Op == "/" && rb.Sign() == 0) {
			res := new(big.Rat)
			switch x.Op {
			case "+":
				res.Add(ra, rb)
			case "-":
				res.Sub(ra, rb)
			case "*":
				res.Mul(ra, rb)
			case "/":
				res.Quo(ra, rb)
			}
			return T{ratLit(res), "Real", untypedFloat}
		}
	}
	a, b = ev.coerce(a, b)
	rt := a.GT
	if isUntypedNum(a) {
		rt = b.GT
	}
	switch x.Op {
	case "+", "-", "*":
		return T{fmt.Sprintf("(%s %s %s)", x.Op, a.S, b.S), a.Sort, rt}
	case "/":
		if a.Sort == "Real" {
			return T{fmt.Sprintf("(/ %s %s)", a.S, b.S), "Real", rt}
		}
		return T{fmt.Sprintf("(go_div %s %s)", a.S, b.S), "Int", rt}
	case "%":
		return T{fmt.Sprintf("(go_mod %s %s)", a.S, b.S), "Int", rt}
	case "==":
		return T{fmt.Sprintf("(= %s %s)", a.S, b.S), "Bool", types.Typ[types.Bool]}
	case "!=":
		return T{fmt.Sprintf("(not (= %s %s))", a.S, b.S), "Bool", types.Typ[types.Bool]}
	case "<", "<=", ">", ">=":
		return T{fmt.Sprintf("(%s %s %s)", x.Op, a.S, b.S), "Bool", types.Typ[types.Bool]}
	}
	stale("unknown operator %s", x.Op)
	return T{}
}

func (ev *Env) resolveType(name string) (types.Type, Sort) {
	if strings.HasPrefix(name, "[]") {
		et, _ := ev.resolveType(name[2:])
		return types.NewSlice(et), "Slice"
	}
	if strings.HasPrefix(name, "*") {
		et, _ := ev.resolveType(name[1:])
		return types.NewPointer(et), "Int"
	}
	switch name {
	case "int", "Int":
		return types.Typ[types.Int], "Int"
	case "real", "float64", "Real":
		return types.Typ[types.Float64], "Real"
	case "float32":
		return types.Typ[types.Float32], "Real"
	case "bool":
		return types.Typ[types.Bool], "Bool"
	case "string":
		return types.Typ[types.String], "Int"
	case "byte", "uint8":
		return types.Typ[types.Uint8], "Int"
	case "uint16":
		return types.Typ[types.Uint16], "Int"
	case "uint32":
		return types.Typ[types.Uint32], "Int"
	case "int32":
		return types.Typ[types.Int32], "Int"
	case "ref":
		return types.Typ[types.Uintptr], "Int"
	}
	var pkg *types.Package = ev.pkg
	tn := name
	if i := strings.Index(name, "."); i >= 0 {
		pkg = ev.findPkg(name[:i])
		tn = name[i+1:]
	}
	if pkg == nil {
		stale("cannot resolve type %s", name)
	}
	obj := pkg.Scope().Lookup(tn)
	tno, ok := obj.(*types.TypeName)
	if !ok {
		stale("cannot resolve type %s", name)
	}
	t := tno.Type()
	return t, ev.vc.sortOf(t)
}

func (ev *Env) findPkg(name string) *types.Package {
	if ev.pkg != nil {
		if ev.pkg.Name() == name {
			return ev.pkg
		}
		for _, imp := range ev.pkg.Imports() {
			if imp.Name() == name {
				return imp
			}
		}
	}
	var found *types.Package
	var paths []string
	for path, sp := range ev.vc.P.SSAPkgs {
		if sp.Pkg.Name() == name {
			paths = append(paths, path)
		}
	}
	sort.Strings(paths)
	if len(paths) > 0 {
		found = ev.vc.P.SSAPkgs[paths[0]].Pkg
	}
	return found
}

func (ev *Env) quant(q *EQuant) T {
	vc := ev.vc
	vars := map[string]T{}
	var binders []string
	var guards []string
	for _, v := range q.Vars {
		gt, srt := ev.resolveType(v.Type)
		vc.ctr++
		n := fmt.Sprintf("%s!q%d", sanitize(v.Name), vc.ctr)
		vt := T{n, srt, gt}
		vars[v.Name] = vt
		binders = append(binders, fmt.Sprintf("(%s %s)", n, srt))
		if v.Type != "int" && v.Type != "real" && v.Type != "Int" && v.Type != "Real" {
			guards = append(guards, vc.validity(vt, 0)...)
		}
	}
	sub := ev.with(vars)
	sub.qdepth = ev.qdepth + 1
	vc.pushCapture()
	body := sub.evalBool(q.Body)
	var trigs []string
	for _, tg := range q.Triggers {
		var ts []string
		for _, te := range tg {
			ts = append(ts, sub.eval(te).S)
		}
		trigs = append(trigs, ":pattern ("+strings.Join(ts, " ")+")")
	}
	letNames := vc.captureNames()
	body = vc.popCapture(body)
	if len(trigs) == 0 && len(q.Vars) == 1 {
		// default triggers: element accesses s[v] (as at-terms) and function-value applications on v
		for _, v := range vars {
			trigs = append(trigs, autoTriggers(body, v.S, letNames)...)
		}
	}
	g := and(guards...)
	var s string
	if q.Forall {
		s = implies(g, body)
	} else {
		s = and(g, body)
	}
	if len(trigs) > 0 {
		s = fmt.Sprintf("(! %s %s)", s, strings.Join(trigs, " "))
	}
	kw := "forall"
	if !q.Forall {
		kw = "exists"
	}
	return T{fmt.Sprintf("(%s (%s) %s)", kw, strings.Join(binders, " "), s), "Bool", types.Typ[types.Bool]}
}

var atTermRe = regexp.MustCompile(`\(at\.[^\s()]+ [^\s()]+ (?:\([^()]*\)|[^\s()]+) ([^\s()]+)\)`)

var mhasRe = regexp.MustCompile(`\((?:mhas|mval)\.[^\s()]+ [^\s()]+ (?:\([^()]*\)|[^\s()]+) ([^\s()]+)\)`)
var mapSelRe = regexp.MustCompile(`\(select \(select ([^\s()]+) (?:\([^()]*\)|[^\s()]+)\) ([^\s()]+)\)`)

func autoTriggers(body, v string, letNames map[string]bool) []string {
	seen := map[string]bool{}
	var out []string
	var matches [][]string
	for pos := 0; ; {
		k := strings.Index(body[pos:], "(at.")
		if k < 0 {
			break
		}
		pos += k
		if loc := atTermRe.FindStringSubmatchIndex(body[pos:]); loc != nil && loc[0] == 0 {
			matches = append(matches, []string{body[pos : pos+loc[1]], body[pos+loc[2] : pos+loc[3]]})
		}
		pos += 4
	}
	for pos := 0; ; {
		k := strings.Index(body[pos:], "(mhas.")
		if k < 0 {
			break
		}
		pos += k
		if loc := mhasRe.FindStringSubmatchIndex(body[pos:]); loc != nil && loc[0] == 0 {
			matches = append(matches, []string{body[pos : pos+loc[1]], body[pos+loc[2] : pos+loc[3]]})
		}
		pos += 5
	}
	// map membership / lookup with the variable as the key: (select (select Dom m) k)
	for pos := 0; ; {
		k := strings.Index(body[pos:], "(select (select ")
		if k < 0 {
			break
		}
		pos += k
		if loc := mapSelRe.FindStringSubmatchIndex(body[pos:]); loc != nil && loc[0] == 0 {
			if strings.HasPrefix(body[pos+loc[2]:pos+loc[3]], "Dom_") {
				matches = append(matches, []string{body[pos : pos+loc[1]], body[pos+loc[4] : pos+loc[5]]})
			}
		}
		pos += 8
	}
	for _, m := range matches {
		if m[1] != v || seen[m[0]] || strings.Contains(m[0], "(ite") {
			continue
		}
		bad := false
		for _, tok := range strings.FieldsFunc(m[0], func(r rune) bool { return r == ' ' || r == '(' || r == ')' }) {
			if letNames[tok] {
				bad = true
			}
		}
		if bad {
			continue
		}
		seen[m[0]] = true
		out = append(out, ":pattern ("+m[0]+")")
	}
	return out
}

func (vc *VC) captureNames() map[string]bool {
	names := map[string]bool{}
	if len(vc.capStack) == 0 {
		return names
	}
	for _, it := range vc.capStack[len(vc.capStack)-1].items {
		if it.isDef {
			names[it.name] = true
		}
	}
	return names
}

// ---- capture: definitions made while evaluating under a binder become let-bindings ------------

type captureBuf struct {
	items []capItem
}
type capItem struct {
	isDef bool
	name  string
	body  string
	fact  string
}

func (vc *VC) pushCapture() { vc.capStack = append(vc.capStack, &captureBuf{}) }

func (vc *VC) popCapture(body string) string {
	cb := vc.capStack[len(vc.capStack)-1]
	vc.capStack = vc.capStack[:len(vc.capStack)-1]
	for i := len(cb.items) - 1; i >= 0; i-- {
		it := cb.items[i]
		if it.isDef {
			body = fmt.Sprintf("(let ((%s %s)) %s)", it.name, it.body, body)
		} else {
			body = fmt.Sprintf("(=> %s %s)", it.fact, body)
		}
	}
	return body
}

func (ev *Env) index(x, i T) T {
	vc := ev.vc
	if x.GT == nil {
		stale("index on untyped value")
	}
	switch u := unalias(x.GT).Underlying().(type) {
	case *types.Slice:
		es := vc.sortOf(u.Elem())
		h := vc.heapArr(es)
		return T{vc.at(es, vc.heapGet(ev.st, h), x.S, i.S), es, u.Elem()}
	case *types.Array:
		return T{fmt.Sprintf("(select %s %s)", x.S, i.S), vc.sortOf(u.Elem()), u.Elem()}
	case *types.Map:
		return vc.mapGet(ev.st, x, u, i.S)
	case *types.Pointer:
		if arr, ok := unalias(u.Elem()).Underlying().(*types.Array); ok {
			es := vc.sortOf(arr.Elem())
			h := vc.heapArr(es)
			return T{fmt.Sprintf("(select (select %s %s) %s)", vc.heapGet(ev.st, h), x.S, i.S), es, arr.Elem()}
		}
	}
	stale("cannot index value of type %s", x.GT)
	return T{}
}

func (ev *Env) deref(x T) T {
	vc := ev.vc
	pt, ok := unalias(x.GT).Underlying().(*types.Pointer)
	if !ok {
		return x
	}
	if _, isArr := unalias(pt.Elem()).Underlying().(*types.Array); isArr {
		return x
	}
	s := vc.sortOf(pt.Elem())
	h := vc.heapPtr(s)
	return T{fmt.Sprintf("(select %s %s)", vc.heapGet(ev.st, h), x.S), s, pt.Elem()}
}

func (ev *Env) sel(x *ESel) T {
	// package-qualified constant / variable?
	if id, ok := x.X.(*EIdent); ok {
		if _, isVar := ev.tryIdent(id.Name); !isVar {
			if pkg := ev.findPkg(id.Name); pkg != nil {
				obj := pkg.Scope().Lookup(x.Name)
				if c, ok := obj.(*types.Const); ok {
					return ev.vc.constTerm(c.Val(), c.Type())
				}
				stale("%s.%s is not a constant", id.Name, x.Name)
			}
		}
	}
	base := ev.eval(x.X)
	return ev.fieldOf(base, x.Name)
}

func (ev *Env) fieldOf(base T, name string) T {
	if base.GT == nil {
		stale("field %s of untyped value", name)
	}
	base = ev.deref(base)
	obj, index, _ := types.LookupFieldOrMethod(base.GT, true, ev.pkgFor(base.GT), name)
	v, ok := obj.(*types.Var)
	if !ok || !v.IsField() {
		stale("no field %s in %s", name, base.GT)
	}
	cur := base
	for _, i := range index {
		cur = ev.deref(cur)
		cur = ev.vc.getField(cur, i)
	}
	return cur
}

func (ev *Env) pkgFor(t types.Type) *types.Package {
	t = unalias(t)
	if p, ok := t.(*types.Pointer); ok {
		t = unalias(p.Elem())
	}
	if n, ok := t.(*types.Named); ok && n.Obj().Pkg() != nil {
		return n.Obj().Pkg()
	}
	return ev.pkg
}

func (ev *Env) tryIdent(name string) (T, bool) {
	if v, ok := ev.vars[name]; ok {
		return v, true
	}
	if a, ok := ev.varAddrs[name]; ok && ev.fr != nil {
		return ev.fr.load(a, ev.st), true
	}
	if ev.fr != nil && ev.fr.fn != nil && !ev.calleeScope {
		if v, ok := ev.fr.lookupLocal(name, ev); ok {
			return v, true
		}
		if alt := ev.vc.P.renamedLocal(ev.fr.fn, name); alt != "" {
			if v, ok := ev.fr.lookupLocal(alt, ev); ok {
				if ev.vc.P.renames == nil {
					ev.vc.P.renames = map[string]bool{}
				}
				ev.vc.P.renames[fmt.Sprintf("%s: contract name %q resolved to renamed local %q", ev.fr.name, name, alt)] = true
				return v, true
			}
		}
	}
	return T{}, false
}

func (ev *Env) ident(name string) T {
	if v, ok := ev.tryIdent(name); ok {
		return v
	}
	switch name {
	case "nil":
		return T{"0", "Int", types.Typ[types.UntypedNil]}
	case "posInf", "negInf":
		ev.vc.decl("posInf", "(declare-const posInf Real)")
		ev.vc.decl("negInf", "(declare-const negInf Real)")
		ev.vc.decl("inf_order", "(assert (< negInf posInf))")
		return T{name, "Real", types.Typ[types.Float64]}
	}
	// package-level constant
	if ev.pkg != nil {
		if obj := ev.pkg.Scope().Lookup(name); obj != nil {
			if c, ok := obj.(*types.Const); ok {
				return ev.vc.constTerm(c.Val(), c.Type())
			}
		}
	}
	stale("unknown identifier %q", name)
	return T{}
}

// lookupLocal resolves a source-level local variable name at a program point.
func (fr *frame) lookupLocal(name string, ev *Env) (T, bool) {
	at := ev.atBlock
	if name == "$i" && at != nil {
		for _, in := range at.Instrs {
			if p, ok := in.(*ssa.Phi); ok && p.Comment == "rangeindex" {
				v := fr.vals[p]
				if o, ok := ev.phiOverride[p]; ok {
					v = o
				}
				return T{fmt.Sprintf("(+ %s 1)", v.S), "Int", types.Typ[types.Int]}, true
			}
		}
		return T{}, false
	}
	// 1. phi at the loop header
	if at != nil {
		for _, in := range at.Instrs {
			p, ok := in.(*ssa.Phi)
			if !ok {
				break
			}
			if p.Comment == name {
				if o, ok := ev.phiOverride[p]; ok {
					return o, true
				}
				if v, ok := fr.vals[p]; ok {
					return v, true
				}
			}
		}
	}
	// 2. parameters / free variables
	for _, p := range fr.fn.Params {
		if p.Name() == name {
			if v, ok := fr.vals[p]; ok {
				return v, true
			}
		}
	}
	for _, fv := range fr.fn.FreeVars {
		if fv.Name() == name {
			if a, ok := fr.addrs[fv]; ok {
				return fr.load(a, ev.st), true
			}
			if v, ok := fr.vals[fv]; ok {
				if _, isPtr := unalias(fv.Type()).Underlying().(*types.Pointer); isPtr {
					return fr.load(fr.addrOf(fv, ev.st), ev.st), true
				}
				return v, true
			}
		}
	}
	// 3. dominating phi / debug reference / alloc with that name
	type cand struct {
		block *ssa.BasicBlock
		idx   int
		get   func() (T, bool)
	}
	var best *cand
	better := func(c *cand) bool {
		if at != nil && !(c.block == at || c.block.Dominates(at)) {
			return false
		}
		if best == nil {
			return true
		}
		if best.block == c.block {
			return c.idx > best.idx
		}
		return best.block.Dominates(c.block)
	}
	for _, b := range fr.fn.Blocks {
		for i, in := range b.Instrs {
			switch x := in.(type) {
			case *ssa.Phi:
				if x.Comment == name && !(at != nil && b == at && !ev.atBlockEnd) {
					x := x
					c := &cand{b, i, func() (T, bool) {
						if o, ok := ev.phiOverride[x]; ok {
							return o, true
						}
						v, ok := fr.vals[x]
						return v, ok
					}}
					if better(c) {
						best = c
					}
				}
			case *ssa.Alloc:
				if x.Comment == name {
					x := x
					c := &cand{b, i, func() (T, bool) {
						a, ok := fr.addrs[x]
						if !ok {
							return T{}, false
						}
						if a.kind == aCell {
							if _, live := ev.st.cells[x]; !live {
								return T{}, false
							}
						}
						return fr.load(a, ev.st), true
					}}
					if better(c) {
						best = c
					}
				}
			case *ssa.DebugRef:
				if x.Object() != nil && x.Object().Name() == name && !x.IsAddr {
					x := x
					if os.Getenv("GOVC_DEBUG_IDENT") == name {
						fmt.Fprintf(os.Stderr, "DEBUG cand %s block=%v idx=%d %v expr=%T\n", name, b, i, x, x.Expr)
					}
					// at the header block itself only instructions before the terminator count,
					// and a loop-header DebugRef is evaluated after the phis: skip when at == b
					if at != nil && b == at && !ev.atBlockEnd {
						continue
					}
					b, i := b, i
					c := &cand{b, i, func() (T, bool) {
						if _, isConst := x.X.(*ssa.Const); !isConst {
							if v, ok := fr.vals[x.X]; ok {
								return v, true
							}
						}
						if cst, ok := x.X.(*ssa.Const); ok {
							// x/tools v0.29 quirk: for `v := map[K]V{...}` the defining debug reference of v names the nil
							// constant, and the value is named by the debug reference of the composite literal that follows it in the same block.
							if cst.Value == nil {
								for k := i + 1; k < len(b.Instrs) && (at == nil || at != b); k++ {
									d, isDbg := b.Instrs[k].(*ssa.DebugRef)
									if !isDbg {
										continue
									}
									if id, isID := d.Expr.(*ast.Ident); isID && id.Name == name {
										break // a later definition of the same variable
									}
									if _, isLit := d.Expr.(*ast.CompositeLit); isLit && types.Identical(d.X.Type(), cst.Type()) {
										if v, ok := fr.vals[d.X]; ok {
											return v, true
										}
										break
									}
								}
							}
							return fr.val(cst), true
						}
						return T{}, false
					}}
					if better(c) {
						best = c
					}
				}
			}
		}
	}
	if best != nil {
		if os.Getenv("GOVC_DEBUG_IDENT") == name {
			v, ok := best.get()
			for k := best.idx - 6; k <= best.idx && k >= 0; k++ {
				in := best.block.Instrs[k]
				ex := ""
				if d, ok := in.(*ssa.DebugRef); ok {
					ex = fmt.Sprintf("%T %v", d.Expr, d.X.Type())
				}
				fmt.Fprintf(os.Stderr, "DEBUG   [%d] %T %v %s\n", k, in, in, ex)
			}
			fmt.Fprintf(os.Stderr, "DEBUG ident %s at=%v best.block=%v idx=%d instr=%v -> %v %v\n", name, at, best.block, best.idx, best.block.Instrs[best.idx], v, ok)
		}
		return best.get()
	}
	return T{}, false
}

// ---- calls in specifications --------------------------------------------------------------------------

func (ev *Env) call(c *ECall) T {
	vc := ev.vc
	// call through a function value (variable, slice element, field) : pure application
	if fv, ok := ev.tryFuncValue(c.Fun); ok {
		sig := unalias(fv.GT).Underlying().(*types.Signature)
		var args []T
		for i, a := range c.Args {
			t := ev.eval(a)
			if i < sig.Params().Len() {
				pt := sig.Params().At(i).Type()
				if isUntypedNum(t) && isFloat(pt) && t.Sort == "Int" {
					t = T{toRealLit(t.S), "Real", pt}
				}
				t.GT = pt
			}
			args = append(args, t)
		}
		if id, isID := c.Fun.(*EIdent); isID && (ev.fr != nil || ev.cbs != nil) {
			cbs := ev.cbs
			if cbs == nil {
				cbs = ev.fr.callbacks
			}
			if cb := cbs[id.Name]; cb != nil && cb.Kind == "fresh" {
				pt, ok := unalias(sig.Results().At(0).Type()).Underlying().(*types.Pointer)
				if !ok {
					stale("fresh callback must return a pointer")
				}
				return vc.applyFreshValue(fv, sig, pt.Elem(), args)
			}
		}
		res := vc.applyFuncValue(fv, sig, args)
		if len(res) != 1 {
			stale("function value used in a specification must return exactly one value")
		}
		return res[0]
	}
	// builtin spec functions
	if id, ok := c.Fun.(*EIdent); ok {
		if r, ok := ev.builtinSpec(id.Name, c.Args); ok {
			return r
		}
		// user spec function
		if sf := ev.findSpec(id.Name); sf != nil {
			return ev.applySpec(sf, c.Args)
		}
		// Go function of this package
		if ev.pkg != nil {
			if fns := vc.P.fnByKey[ev.pkg.Path()+"::"+id.Name]; len(fns) > 0 {
				var args []T
				for _, a := range c.Args {
					args = append(args, ev.eval(a))
				}
				return ev.callGo(pickInstance(fns, args), args)
			}
		}
		stale("unknown function %q in specification", id.Name)
	}
	if sel, ok := c.Fun.(*ESel); ok {
		// pkg.Func(...)
		if id, ok := sel.X.(*EIdent); ok {
			if _, isVar := ev.tryIdent(id.Name); !isVar {
				if pkg := ev.findPkg(id.Name); pkg != nil {
					var args []T
					for _, a := range c.Args {
						args = append(args, ev.eval(a))
					}
					if sf := vc.P.Cs.Specs[pkg.Path()+"::"+sel.Name]; sf != nil {
						return ev.applySpec(sf, c.Args)
					}
					fns := vc.P.fnByKey[pkg.Path()+"::"+sel.Name]
					if len(fns) == 0 {
						stale("unknown function %s.%s", id.Name, sel.Name)
					}
					return ev.callGo(pickInstance(fns, args), args)
				}
			}
		}
		// method call on a value
		recv := ev.eval(sel.X)
		var args []T
		args = append(args, recv)
		for _, a := range c.Args {
			args = append(args, ev.eval(a))
		}
		fn := ev.findMethod(recv, sel.Name)
		if fn == nil {
			stale("no method %s on %s", sel.Name, recv.GT)
		}
		// receiver adjustment
		rt := fn.Signature.Recv().Type()
		_, wantPtr := unalias(rt).Underlying().(*types.Pointer)
		_, havePtr := unalias(recv.GT).Underlying().(*types.Pointer)
		if wantPtr && !havePtr {
			stale("method %s needs a pointer receiver", sel.Name)
		}
		if !wantPtr && havePtr {
			args[0] = ev.deref(recv)
		}
		return ev.callGo(fn, args)
	}
	stale("unsupported call expression")
	return T{}
}

func (ev *Env) tryFuncValue(e Expr) (t T, ok bool) {
	switch x := e.(type) {
	case *EIdent:
		v, found := ev.tryIdent(x.Name)
		if !found || v.GT == nil {
			return T{}, false
		}
		if _, isSig := unalias(v.GT).Underlying().(*types.Signature); isSig {
			return v, true
		}
		return T{}, false
	case *EIndex:
		defer func() {
			if r := recover(); r != nil {
				if _, isStale := r.(staleErr); isStale {
					ok = false
					return
				}
				panic(r)
			}
		}()
		v := ev.eval(x)
		if v.GT != nil {
			if _, isSig := unalias(v.GT).Underlying().(*types.Signature); isSig {
				return v, true
			}
		}
	}
	return T{}, false
}

func pickInstance(fns []*ssa.Function, args []T) *ssa.Function {
	if len(fns) == 1 {
		return fns[0]
	}
	best := fns[0]
	bestScore := -1
	for _, f := range fns {
		if len(f.Params) != len(args) {
			continue
		}
		score := 0
		for i, p := range f.Params {
			if args[i].GT != nil && types.Identical(unalias(p.Type()), unalias(args[i].GT)) {
				score += 2
			} else if isFloat(p.Type()) && (args[i].Sort == "Real" || isUntypedNum(args[i])) {
				if b, ok := p.Type().Underlying().(*types.Basic); ok && b.Kind() == types.Float64 {
					score++
				}
			}
		}
		if score > bestScore {
			best, bestScore = f, score
		}
	}
	return best
}

func (ev *Env) findMethod(recv T, name string) *ssa.Function {
	if recv.GT == nil {
		return nil
	}
	prog := ev.vc.P.SSA
	t := recv.GT
	cands := []types.Type{t, types.NewPointer(t)}
	if pt, ok := unalias(t).Underlying().(*types.Pointer); ok {
		// prefer the method declared on the element type (no synthetic pointer wrapper)
		cands = []types.Type{pt.Elem(), t}
	}
	for _, cand := range cands {
		ms := prog.MethodSets.MethodSet(cand)
		for i := 0; i < ms.Len(); i++ {
			s := ms.At(i)
			if s.Obj().Name() == name {
				if fn := prog.MethodValue(s); fn != nil {
					// unwrap synthetic wrappers where possible
					return fn
				}
			}
		}
	}
	return nil
}

func (ev *Env) callGo(fn *ssa.Function, args []T) T {
	vc := ev.vc
	if len(fn.Params) != len(args) {
		stale("call of %s with %d arguments, want %d", fn, len(args), len(fn.Params))
	}
	for i, p := range fn.Params {
		if isUntypedNum(args[i]) {
			if isFloat(p.Type()) && args[i].Sort == "Int" {
				args[i] = T{toRealLit(args[i].S), "Real", p.Type()}
			} else if isFloat(p.Type()) && args[i].GT == untypedFloat {
				args[i] = roundConst(args[i], p.Type())
			}
		}
		args[i].GT = p.Type()
	}
	if spec, ok := stdSpecs[stdName(fn)]; ok {
		fr := ev.frameForInline()
		tmp := ev.st.clone()
		return spec(fr, nil, args, tmp, "")[0]
	}
	fc := vc.P.contractFor(fn)
	if fc != nil && !fc.Pure {
		// a function under contract used in a specification stands for "a value satisfying its postconditions"
		if len(fc.Requires) > 0 {
			stale("function %s has preconditions and cannot be used in a specification", fn)
		}
		if len(fc.Modifies) > 0 {
			stale("function %s modifies memory and cannot be used in a specification", fn)
		}
		fc.used = true
		fr := ev.frameForInline()
		tmp := ev.st.clone()
		tmp.reach = "true"
		res := fr.modularCall(fc, fn, nil, args, nil, tmp, "")
		if len(res) != 1 {
			stale("function %s used in a specification must return exactly one value", fn)
		}
		return res[0]
	}
	if !(fc != nil && fc.Pure) && !isWrapper(fn) {
		stale("function %s used in a specification is not declared pure", fn)
	}
	if fc != nil {
		fc.used = true
		vc.pureUsed[displayName(fn)] = true
		vc.pureFns[fn] = true
	}
	fr := ev.frameForInline()
	tmp := ev.st.clone()
	tmp.reach = "true"
	res := fr.pureCall(fn, nil, args, nil, tmp, "")
	if len(res) != 1 {
		stale("function %s used in a specification must return exactly one value", fn)
	}
	return res[0]
}

func (ev *Env) frameForInline() *frame {
	if ev.fr != nil {
		return ev.fr
	}
	fr := &frame{vc: ev.vc, vals: map[ssa.Value]T{}, addrs: map[ssa.Value]*addr{}, tuples: map[ssa.Value][]T{}, clos: map[ssa.Value]*closureVal{},
		inline: true, next0: ev.next0, callbacks: map[string]*CallbackSpec{}, name: "spec"}
	ev.fr = fr
	return fr
}

func (ev *Env) findSpec(name string) *SpecFunc {
	if ev.pkg != nil {
		if sf := ev.vc.P.Cs.Specs[ev.pkg.Path()+"::"+name]; sf != nil {
			return sf
		}
	}
	if sf := ev.vc.P.Cs.Specs["::"+name]; sf != nil {
		return sf
	}
	// any package (spec names are expected to be unique when used across packages)
	var keys []string
	for k := range ev.vc.P.Cs.Specs {
		if strings.HasSuffix(k, "::"+name) {
			keys = append(keys, k)
		}
	}
	sort.Strings(keys)
	if len(keys) > 0 {
		return ev.vc.P.Cs.Specs[keys[0]]
	}
	return nil
}

func (ev *Env) applySpec(sf *SpecFunc, argEs []Expr) T {
	vc := ev.vc
	if len(argEs) != len(sf.Params) {
		stale("spec %s: %d arguments, want %d", sf.Name, len(argEs), len(sf.Params))
	}
	var args []T
	for _, a := range argEs {
		args = append(args, ev.eval(a))
	}
	// environment of the spec's own package
	var pkg *types.Package
	if sp := vc.P.SSAPkgs[sf.Pkg]; sp != nil {
		pkg = sp.Pkg
	} else {
		pkg = ev.pkg
	}
	senv := &Env{vc: vc, fr: ev.fr, pkg: pkg, vars: map[string]T{}, st: ev.st, old: ev.old, next0: ev.next0, calleeScope: true, qdepth: ev.qdepth}
	var sorts []string
	for i, p := range sf.Params {
		gt, srt := senv.resolveType(p.Type)
		a := args[i]
		if a.Sort != srt && a.GT != nil {
			if pt, ok := unalias(a.GT).Underlying().(*types.Pointer); ok && ev.vc.sortOf(pt.Elem()) == srt {
				a = ev.deref(a)
			}
		}
		if a.Sort != srt {
			if a.Sort == "Int" && srt == "Real" && a.GT == untypedInt {
				a = T{toRealLit(a.S), "Real", gt}
			} else {
				stale("spec %s: argument %d has sort %s, want %s", sf.Name, i+1, a.Sort, srt)
			}
		}
		if a.GT == nil || isUntypedNum(a) || structOf(gt) != nil || a.GT == types.Typ[types.UntypedNil] {
			a.GT = gt
		}
		if len(a.S) > 24 && sf.Body != nil {
			a = T{vc.define("arg_"+sanitize(p.Name), a.Sort, a.S), a.Sort, a.GT}
		}
		senv.vars[p.Name] = a
		args[i] = a
		sorts = append(sorts, srt)
	}
	rgt, rsort := senv.resolveType(sf.Result)
	if sf.Body != nil {
		r := senv.eval(sf.Body)
		if r.Sort != rsort {
			if r.Sort == "Int" && rsort == "Real" && r.GT == untypedInt {
				r = T{toRealLit(r.S), "Real", rgt}
			} else {
				stale("spec %s: body has sort %s, declared %s", sf.Name, r.Sort, rsort)
			}
		}
		r.GT = rgt
		return r
	}
	// uninterpreted
	name := "spec." + sanitize(sf.Name)
	vc.decl(name, fmt.Sprintf("(declare-fun %s (%s) %s)", name, strings.Join(sorts, " "), rsort))
	for i, ax := range sf.Axioms {
		key := fmt.Sprintf("%s_ax%d", name, i)
		if !vc.declSeen[key] {
			vc.declSeen[key] = true // guard against recursion through the axiom's own use of the spec
			aenv := &Env{vc: vc, pkg: pkg, vars: map[string]T{}, st: ev.st, old: ev.old, next0: ev.next0, calleeScope: true}
			saveCap := vc.capStack
			vc.capStack = nil
			body := aenv.evalBool(ax.E)
			vc.capStack = saveCap
			vc.decls = append(vc.decls, fmt.Sprintf("(assert %s)", body))
			vc.assumedStd[fmt.Sprintf("axiom of spec function %s: %s", sf.Name, ax.Src)] = true
		}
	}
	var as []string
	for _, a := range args {
		as = append(as, a.S)
	}
	if len(as) == 0 {
		return T{name, rsort, rgt}
	}
	return T{fmt.Sprintf("(%s %s)", name, strings.Join(as, " ")), rsort, rgt}
}

func (ev *Env) builtinSpec(name string, argEs []Expr) (T, bool) {
	vc := ev.vc
	arg := func(i int) T { return ev.eval(argEs[i]) }
	boolT := types.Typ[types.Bool]
	intT := types.Typ[types.Int]
	switch name {
	case "len", "cap":
		a := arg(0)
		if a.GT != nil {
			switch u := unalias(a.GT).Underlying().(type) {
			case *types.Slice:
				if name == "len" {
					return T{fmt.Sprintf("(s_len %s)", a.S), "Int", intT}, true
				}
				return T{fmt.Sprintf("(s_cap %s)", a.S), "Int", intT}, true
			case *types.Array:
				return T{fmt.Sprintf("%d", u.Len()), "Int", intT}, true
			case *types.Map:
				return T{vc.mapLen(ev.st, a, u), "Int", intT}, true
			case *types.Basic:
				if isString(a.GT) {
					return T{vc.strLen(a.S), "Int", intT}, true
				}
			}
		}
		stale("len of %s", a.GT)
	case "old":
		if ev.old == nil {
			stale("old() not available here")
		}
		n := *ev
		n.st = ev.old
		n.phiOverride = nil
		return (&n).eval(argEs[0]), true
	case "fresh":
		a := arg(0)
		if a.Sort == "Slice" {
			// a slice without capacity shares no writable memory with anything
			return T{fmt.Sprintf("(or (>= (s_arr %s) %s) (= (s_cap %s) 0))", a.S, ev.next0, a.S), "Bool", boolT}, true
		}
		return T{fmt.Sprintf("(>= %s %s)", ev.refOf(a), ev.next0), "Bool", boolT}, true
	case "allocated":
		a := arg(0)
		return T{fmt.Sprintf("(< %s %s)", ev.refOf(a), ev.st.next), "Bool", boolT}, true
	case "ref":
		a := arg(0)
		return T{ev.refOf(a), "Int", types.Typ[types.Uintptr]}, true
	case "off":
		a := arg(0)
		return T{fmt.Sprintf("(s_off %s)", a.S), "Int", intT}, true
	case "sameSlice":
		a, b := arg(0), arg(1)
		return T{fmt.Sprintf("(and (= (s_arr %s) (s_arr %s)) (= (s_off %s) (s_off %s)) (= (s_len %s) (s_len %s)))", a.S, b.S, a.S, b.S, a.S, b.S), "Bool", boolT}, true
	case "has":
		m, k := arg(0), arg(1)
		mt, ok := unalias(m.GT).Underlying().(*types.Map)
		if !ok {
			stale("has() on non-map")
		}
		return T{vc.mapHas(ev.st, m, mt, k.S), "Bool", boolT}, true
	case "abs":
		a := arg(0)
		if a.Sort == "Real" {
			return T{fmt.Sprintf("(rabs %s)", a.S), "Real", a.GT}, true
		}
		return T{fmt.Sprintf("(iabs %s)", a.S), "Int", a.GT}, true
	case "min", "max":
		a, b := ev.coerce(arg(0), arg(1))
		p := "i"
		if a.Sort == "Real" {
			p = "r"
		}
		return T{fmt.Sprintf("(%s%s %s %s)", p, name, a.S, b.S), a.Sort, a.GT}, true
	case "sqrt":
		a := arg(0)
		if a.Sort == "Int" {
			a = T{toRealLit(a.S), "Real", types.Typ[types.Float64]}
		}
		x := vc.define("sqarg", "Real", a.S)
		return T{vc.sqrtTerm(x, "true"), "Real", types.Typ[types.Float64]}, true
	case "real", "float64":
		a := arg(0)
		if a.Sort == "Real" {
			return T{a.S, "Real", types.Typ[types.Float64]}, true
		}
		return T{toRealLit(a.S), "Real", types.Typ[types.Float64]}, true
	case "f32", "float32":
		a := arg(0)
		if a.Sort == "Int" {
			a = T{toRealLit(a.S), "Real", types.Typ[types.Float64]}
		}
		vc.declF32()
		return T{fmt.Sprintf("(f32 %s)", a.S), "Real", types.Typ[types.Float32]}, true
	case "int":
		a := arg(0)
		if a.Sort == "Int" {
			return T{a.S, "Int", intT}, true
		}
		return T{fmt.Sprintf("(rtrunc %s)", a.S), "Int", intT}, true
	case "floor":
		a := arg(0)
		return T{fmt.Sprintf("(to_int %s)", a.S), "Int", intT}, true
	case "div": // mathematical floor division
		a, b := arg(0), arg(1)
		return T{fmt.Sprintf("(div %s %s)", a.S, b.S), "Int", intT}, true
	case "mod":
		a, b := arg(0), arg(1)
		return T{fmt.Sprintf("(mod %s %s)", a.S, b.S), "Int", intT}, true
	case "visits":
		vc.regHeap("G_visits", "(Array Int Int)")
		a := arg(0)
		return T{fmt.Sprintf("(select %s %s)", vc.heapGet(ev.st, "G_visits"), a.S), "Int", intT}, true
	case "count":
		// count(s, n): number of true entries among s[0..n) of a []bool slice (recursive spec function,
		// unfolded by fuel-limited triggered axioms)
		sl, n := arg(0), arg(1)
		if sl.Sort != "Slice" {
			stale("count() needs a []bool slice")
		}
		vc.declCount()
		h := vc.heapArr("Bool")
		return T{fmt.Sprintf("(cntTrue 2 (select %s (s_arr %s)) (s_off %s) %s)", vc.heapGet(ev.st, h), sl.S, sl.S, n.S), "Int", intT}, true
	case "pow2":
		vc.decl("pow2f", "(declare-fun pow2f (Int) Int)")
		vc.decl("pow2f_ax", "(assert (and (= (pow2f 0) 1) (= (pow2f 1) 2) (= (pow2f 2) 4) (= (pow2f 3) 8) (= (pow2f 4) 16) (= (pow2f 8) 256) (= (pow2f 16) 65536) (forall ((k Int)) (! (=> (>= k 0) (and (> (pow2f k) 0) (= (pow2f (+ k 1)) (* 2 (pow2f k))))) :pattern ((pow2f k))))))")
		return T{fmt.Sprintf("(pow2f %s)", arg(0).S), "Int", intT}, true
	case "held":
		// held(p.mu): the running goroutine holds the mutex stored in field mu of *p
		sel, ok := argEs[0].(*ESel)
		if !ok {
			stale("held(x.f): expected a field selector")
		}
		base := ev.eval(sel.X)
		pt, isPtr := unalias(base.GT).Underlying().(*types.Pointer)
		if !isPtr {
			stale("held(x.f): x must be a pointer to the struct holding the mutex")
		}
		obj, index, _ := types.LookupFieldOrMethod(pt.Elem(), true, ev.pkgFor(pt.Elem()), sel.Name)
		if v, ok := obj.(*types.Var); !ok || !v.IsField() || len(index) != 1 {
			stale("held: no field %s", sel.Name)
		}
		vc.decl("iptr", "(declare-fun iptr (Int Int) Int)")
		vc.regHeap("G_held", ghostSorts["G_held"])
		if fv, isVar := obj.(*types.Var); isVar {
			if _, isPtr := unalias(fv.Type()).Underlying().(*types.Pointer); isPtr {
				// the field holds a *sync.Mutex: the lock is identified by that pointer
				mv := ev.fieldOf(base, sel.Name)
				return T{fmt.Sprintf("(select %s %s)", vc.heapGet(ev.st, "G_held"), mv.S), "Bool", boolT}, true
			}
		}
		return T{fmt.Sprintf("(select %s (iptr %s %d))", vc.heapGet(ev.st, "G_held"), base.S, index[0]), "Bool", boolT}, true
	case "ncalls", "callarg":
		// ncalls(F): how many times this (single-block, straight-line) function calls a function named F;
		// callarg(F, k): the first non-receiver argument of the k-th such call, as the caller computed it
		if ev.fr == nil || len(ev.fr.fn.Blocks) != 1 {
			stale("%s is only available in the contract of a straight-line (single block) function", name)
		}
		id, ok := argEs[0].(*EIdent)
		if !ok {
			stale("%s: first argument must be a function name", name)
		}
		log := ev.fr.callLog[id.Name]
		if name == "ncalls" {
			return T{fmt.Sprintf("%d", len(log)), "Int", intT}, true
		}
		kl, ok := argEs[1].(*ENum)
		if !ok {
			stale("callarg: the index must be a literal")
		}
		k, err := strconv.Atoi(kl.Text)
		if err != nil || k < 0 || k >= len(log) {
			// fewer calls than the contract talks about: the clause cannot hold
			return T{"false", "Bool", boolT}, true
		}
		return log[k], true
	case "prev":
		if ev.prevEnv == nil {
			stale("prev() is only meaningful in a loop step clause")
		}
		pe := *ev.prevEnv
		pe.vars = ev.vars // quantified variables stay visible
		pe.qdepth = ev.qdepth
		return pe.eval(argEs[0]), true
	case "uint8":
		// uint8(x): the Go conversion to byte — of a float (truncation toward zero, then modulo 256) or of an integer
		a := arg(0)
		v := a.S
		if a.Sort == "Real" {
			v = fmt.Sprintf("(rtrunc %s)", a.S)
		}
		return T{fmt.Sprintf("(mod %s 256)", v), "Int", types.Typ[types.Uint8]}, true
	case "deref":
		// deref(p): the value p points to
		a := arg(0)
		if _, ok := unalias(a.GT).Underlying().(*types.Pointer); !ok {
			stale("deref of a non-pointer")
		}
		return ev.deref(a), true
	case "tr":
		// tr(k): always true; exists to be used as an explicit quantifier trigger "{tr(k)}" where the natural
		// terms are arithmetic (positions in a byte stream) and make poor E-matching patterns
		vc.decl("trig", "(declare-fun trig (Int) Bool)")
		vc.decl("trig_ax", "(assert (forall ((x Int)) (! (trig x) :pattern ((trig x)))))")
		return T{fmt.Sprintf("(trig %s)", arg(0).S), "Bool", boolT}, true
	case "wrote":
		// wrote(w, q): byte q of everything written to w so far
		vc.regHeap("G_wbytes", ghostSorts["G_wbytes"])
		return T{fmt.Sprintf("(select (select %s %s) %s)", vc.heapGet(ev.st, "G_wbytes"), arg(0).S, arg(1).S), "Int", intT}, true
	case "u16", "u32", "u64":
		// the unsigned integer a ByteOrder decodes from these bytes (uninterpreted; the same function is used by
		// PutUintN and UintN, so byte order itself is abstracted)
		n := map[string]int{"u16": 2, "u32": 4, "u64": 8}[name]
		if len(argEs) != n+1 {
			stale("%s takes a ByteOrder value and %d byte arguments", name, n)
		}
		vc.declUint(n)
		vc.decl("itag", "(declare-fun itag (Int) Int)")
		var as []string
		as = append(as, fmt.Sprintf("(itag %s)", arg(0).S))
		for i := 1; i < len(argEs); i++ {
			as = append(as, arg(i).S)
		}
		return T{fmt.Sprintf("(bo.u%d %s)", n*8, strings.Join(as, " ")), "Int", intT}, true
	case "f32bits":
		vc.decl("math.Float32bits", "(declare-fun math.Float32bits (Real) Int)")
		return T{fmt.Sprintf("(math.Float32bits %s)", arg(0).S), "Int", intT}, true
	case "f64bits":
		vc.decl("math.Float64bits", "(declare-fun math.Float64bits (Real) Int)")
		return T{fmt.Sprintf("(math.Float64bits %s)", arg(0).S), "Int", intT}, true
	case "int32":
		// int32(x): the Go conversion of an integer to int32 (wraps modulo 2^32)
		x := arg(0).S
		m := fmt.Sprintf("(mod %s 4294967296)", x)
		return T{fmt.Sprintf("(ite (>= %s 2147483648) (- %s 4294967296) %s)", m, m, m), "Int", types.Typ[types.Int32]}, true
	case "f64frombits":
		vc.decl("math.Float64frombits", "(declare-fun math.Float64frombits (Int) Real)")
		return T{fmt.Sprintf("(math.Float64frombits %s)", arg(0).S), "Real", types.Typ[types.Float64]}, true
	case "f32frombits":
		vc.decl("math.Float32frombits", "(declare-fun math.Float32frombits (Int) Real)")
		return T{fmt.Sprintf("(math.Float32frombits %s)", arg(0).S), "Real", types.Typ[types.Float32]}, true
	case "lines":
		return T{vc.ghostGet(ev.st, "G_lines", arg(0).S), "Int", intT}, true
	case "written":
		return T{vc.ghostGet(ev.st, "G_written", arg(0).S), "Int", intT}, true
	case "consumed":
		return T{vc.ghostGet(ev.st, "G_consumed", arg(0).S), "Int", intT}, true
	case "lastInt":
		return T{vc.ghostGet(ev.st, "G_lastInt", arg(0).S), "Int", intT}, true
	case "lastSlice":
		return T{vc.ghostGet(ev.st, "G_lastSlice", arg(0).S), "Slice", nil}, true
	case "total":
		vc.declStream()
		return T{fmt.Sprintf("(io.total %s)", arg(0).S), "Int", intT}, true
	case "stream":
		vc.declStream()
		return T{fmt.Sprintf("(io.stream %s %s)", arg(0).S, arg(1).S), "Int", intT}, true
	case "forked":
		vc.regHeap("G_forked", "(Array Int Int)")
		a := arg(0)
		return T{fmt.Sprintf("(select %s %s)", vc.heapGet(ev.st, "G_forked"), a.S), "Int", intT}, true
	case "seen":
		// seen(k): ghost set of the innermost map range at this loop header
		a := arg(0)
		if ev.fr == nil || ev.atBlock == nil {
			stale("seen() outside a loop invariant")
		}
		it := ev.fr.iterAt(ev.atBlock)
		if it == nil {
			stale("seen(): no map iteration at this loop")
		}
		return T{fmt.Sprintf("(select %s %s)", vc.heapGet(ev.st, it.seen), a.S), "Bool", boolT}, true
	case "typeIs", "as":
		// typeIs(x, T): the dynamic type of interface value x is exactly T (a type name, or ptr(T) spelled "ptr_T");
		// as(x, T): the value stored in x, meaningful when typeIs(x, T)
		if len(argEs) != 2 {
			stale("%s(x, T) takes two arguments", name)
		}
		tn := ""
		switch te := argEs[1].(type) {
		case *EIdent:
			tn = te.Name
		case *ESel:
			if id, ok := te.X.(*EIdent); ok {
				tn = id.Name + "." + te.Name
			}
		}
		if tn == "" {
			stale("%s: second argument must be a type name", name)
		}
		if strings.HasPrefix(tn, "ptr_") {
			tn = "*" + tn[4:]
		}
		gt, srt := ev.resolveType(tn)
		x := arg(0)
		vc.decl("itag", "(declare-fun itag (Int) Int)")
		if name == "typeIs" {
			return T{fmt.Sprintf("(and (not (= %s 0)) (= (itag %s) %s))", x.S, x.S, vc.typeTag(gt)), "Bool", boolT}, true
		}
		pf := "ipay_" + sortTag(srt)
		vc.decl(pf, fmt.Sprintf("(declare-fun %s (Int) %s)", pf, srt))
		return T{fmt.Sprintf("(%s %s)", pf, x.S), srt, gt}, true
	}
	return T{}, false
}

func (fr *frame) iterAt(b *ssa.BasicBlock) *iterState {
	// the innermost enclosing map-range loop
	for l := fr.loopAt[b]; l != nil; l = l.Parent {
		for _, in := range l.Header.Instrs {
			if n, ok := in.(*ssa.Next); ok {
				return fr.iters()[n.Iter]
			}
		}
	}
	for _, in := range b.Instrs {
		if n, ok := in.(*ssa.Next); ok {
			return fr.iters()[n.Iter]
		}
	}
	return nil
}

func (ev *Env) refOf(a T) string {
	if a.GT != nil {
		switch unalias(a.GT).Underlying().(type) {
		case *types.Slice:
			return fmt.Sprintf("(s_arr %s)", a.S)
		case *types.Pointer, *types.Map, *types.Chan, *types.Signature, *types.Interface:
			return a.S
		}
	}
	if a.Sort == "Slice" {
		return fmt.Sprintf("(s_arr %s)", a.S)
	}
	if a.Sort == "Int" {
		return a.S
	}
	stale("value has no reference: %s", a.GT)
	return ""
}

var _ = constant.MakeBool
