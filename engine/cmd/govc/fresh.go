package main

// Static allocation-site provenance: which SSA values certainly refer to memory allocated by the
// current call. Greatest fixpoint over phis and over "maps that only ever receive fresh values".
// The inferred facts are inductive by construction and are assumed where the values are produced
// (loop heads, map lookups); they let frame.* obligations discharge without hand-written invariants.

import (
	"go/types"

	"golang.org/x/tools/go/ssa"
)

type freshInfo struct {
	fresh     map[ssa.Value]bool
	freshMaps map[ssa.Value]bool // maps created here whose stored values are all fresh
	elemFresh map[ssa.Value]bool // slices created here whose stored (reference) elements are all fresh
	fieldOK   map[string]bool    // "Type#field": every store to that field in this function stores a fresh value
}

var returnsFreshMemo = map[*ssa.Function]int{} // 0 unknown, 1 computing, 2 yes, 3 no

// returnsFresh: every reference result of fn is allocated by fn (by its own provenance analysis).
func returnsFresh(p *Program, fn *ssa.Function) bool {
	switch returnsFreshMemo[fn] {
	case 2:
		return true
	case 1, 3:
		return false
	}
	if len(fn.Blocks) == 0 {
		returnsFreshMemo[fn] = 3
		return false
	}
	returnsFreshMemo[fn] = 1
	fi := analyseFresh(p, fn)
	ok := true
	for _, b := range fn.Blocks {
		for _, in := range b.Instrs {
			r, isRet := in.(*ssa.Return)
			if !isRet {
				continue
			}
			for _, v := range r.Results {
				switch unalias(v.Type()).Underlying().(type) {
				case *types.Slice, *types.Map, *types.Pointer:
					if c, isC := v.(*ssa.Const); isC && c.Value == nil {
						continue
					}
					if !fi.fresh[v] {
						ok = false
					}
				}
			}
		}
	}
	if ok {
		returnsFreshMemo[fn] = 2
	} else {
		returnsFreshMemo[fn] = 3
	}
	return ok
}

func fieldKey(fa *ssa.FieldAddr) string {
	pt := unalias(fa.X.Type()).Underlying().(*types.Pointer)
	return typeKey(pt.Elem()) + "#" + string(rune('0'+fa.Field))
}

func analyseFresh(p *Program, fn *ssa.Function) *freshInfo {
	fi := &freshInfo{fresh: map[ssa.Value]bool{}, freshMaps: map[ssa.Value]bool{}, elemFresh: map[ssa.Value]bool{}, fieldOK: map[string]bool{}}
	type fieldStore struct {
		key string
		val ssa.Value
	}
	var fieldStores []fieldStore
	type elemStore struct {
		base ssa.Value
		val  ssa.Value
	}
	var elemStores []elemStore
	var baseOf func(v ssa.Value) ssa.Value
	baseOf = func(v ssa.Value) ssa.Value {
		for i := 0; i < 6; i++ {
			switch x := v.(type) {
			case *ssa.Slice:
				v = x.X
			case *ssa.ChangeType:
				v = x.X
			default:
				return v
			}
		}
		return v
	}
	isRefType := func(t types.Type) bool {
		switch unalias(t).Underlying().(type) {
		case *types.Slice, *types.Map, *types.Pointer:
			return true
		}
		return false
	}
	// candidate maps: MakeMap results that do not escape into calls that might write them
	mapUpdates := map[ssa.Value][]*ssa.MapUpdate{}
	escapes := map[ssa.Value]bool{}
	var all []ssa.Value
	for _, b := range fn.Blocks {
		for _, in := range b.Instrs {
			if v, ok := in.(ssa.Value); ok && v.Type() != nil && isRefType(v.Type()) {
				all = append(all, v)
			}
			switch x := in.(type) {
			case *ssa.MapUpdate:
				mapUpdates[x.Map] = append(mapUpdates[x.Map], x)
			case ssa.CallInstruction:
				c := x.Common()
				writesArgs := true
				if callee := c.StaticCallee(); callee != nil {
					if fc := p.contractFor(callee); fc != nil && len(fc.Modifies) == 0 {
						writesArgs = false
					}
					if _, isStd := stdSpecs[stdName(callee)]; isStd {
						writesArgs = false
					}
				}
				if _, isB := c.Value.(*ssa.Builtin); isB {
					writesArgs = false
				}
				if writesArgs {
					for _, a := range c.Args {
						escapes[a] = true
					}
				}
			case *ssa.Store:
				switch a := x.Addr.(type) {
				case *ssa.FieldAddr:
					if isRefType(x.Val.Type()) {
						fieldStores = append(fieldStores, fieldStore{fieldKey(a), x.Val})
						fi.fieldOK[fieldKey(a)] = true
					}
				case *ssa.IndexAddr:
					if isRefType(x.Val.Type()) {
						elemStores = append(elemStores, elemStore{baseOf(a.X), x.Val})
					}
				default:
					escapes[x.Val] = true // stored somewhere else: aliases may write it
				}
			case *ssa.MakeClosure:
				for _, bnd := range x.Bindings {
					escapes[bnd] = true
				}
			}
		}
	}
	// optimistic start
	for _, v := range all {
		switch x := v.(type) {
		case *ssa.MakeSlice, *ssa.MakeMap:
			fi.fresh[v] = true
		case *ssa.Alloc:
			if x.Heap {
				fi.fresh[v] = true
			}
		case *ssa.Phi, *ssa.Slice, *ssa.ChangeType, *ssa.Lookup:
			fi.fresh[v] = true
		case *ssa.UnOp:
			if x.Op.String() == "*" {
				switch x.X.(type) {
				case *ssa.FieldAddr, *ssa.IndexAddr:
					fi.fresh[v] = true
				}
			}
		case *ssa.Call:
			if b, ok := x.Call.Value.(*ssa.Builtin); ok && b.Name() == "append" {
				fi.fresh[v] = true
			} else if callee := x.Call.StaticCallee(); callee != nil && callee != fn && returnsFresh(p, callee) {
				fi.fresh[v] = true
			}
		}
	}
	for v := range fi.fresh {
		if _, ok := v.(*ssa.MakeSlice); ok && !escapes[v] {
			fi.elemFresh[v] = true
		}
	}
	for v := range fi.fresh {
		if _, ok := v.(*ssa.MakeMap); ok && !escapes[v] {
			fi.freshMaps[v] = true
		}
	}
	changed := true
	for changed {
		changed = false
		drop := func(v ssa.Value) {
			if fi.fresh[v] {
				delete(fi.fresh, v)
				changed = true
			}
		}
		for v := range fi.fresh {
			switch x := v.(type) {
			case *ssa.Phi:
				for _, e := range x.Edges {
					if c, isC := e.(*ssa.Const); isC && c.Value == nil {
						continue // nil
					}
					if !fi.fresh[e] {
						drop(v)
						break
					}
				}
			case *ssa.Slice:
				if !fi.fresh[x.X] {
					drop(v)
				}
			case *ssa.ChangeType:
				if !fi.fresh[x.X] {
					drop(v)
				}
			case *ssa.Lookup:
				if !fi.freshMaps[x.X] || x.CommaOk {
					drop(v)
				}
			case *ssa.UnOp:
				switch a := x.X.(type) {
				case *ssa.FieldAddr:
					if !fi.fresh[a.X] || !fi.fieldOK[fieldKey(a)] {
						drop(v)
					}
				case *ssa.IndexAddr:
					if !fi.elemFresh[baseOf(a.X)] {
						drop(v)
					}
				}
			case *ssa.Call:
				if b, ok := x.Call.Value.(*ssa.Builtin); !ok || b.Name() != "append" {
					continue
				}
				if !fi.fresh[x.Call.Args[0]] {
					// append to nil constant is fresh too
					if c, isC := x.Call.Args[0].(*ssa.Const); !(isC && c.Value == nil) {
						drop(v)
					}
				}
			}
		}
		for _, fs := range fieldStores {
			if fi.fieldOK[fs.key] && !fi.fresh[fs.val] {
				if c, isC := fs.val.(*ssa.Const); isC && c.Value == nil {
					continue
				}
				delete(fi.fieldOK, fs.key)
				changed = true
			}
		}
		for _, es := range elemStores {
			if fi.elemFresh[es.base] && !fi.fresh[es.val] {
				if c, isC := es.val.(*ssa.Const); isC && c.Value == nil {
					continue
				}
				delete(fi.elemFresh, es.base)
				changed = true
			}
		}
		for m := range fi.freshMaps {
			for _, u := range mapUpdates[m] {
				if !isRefType(u.Value.Type()) {
					continue
				}
				if !fi.fresh[u.Value] {
					delete(fi.freshMaps, m)
					changed = true
					break
				}
			}
		}
	}
	return fi
}
