package main

// Parser for the specification expression language used in //@ clauses.

import (
	"fmt"
	"strings"
	"unicode"
)

type Expr interface{}

type (
	EIdent struct{ Name string }
	ENum   struct {
		Text    string
		IsFloat bool
	}
	EStr   struct{ Val string }
	EBool  struct{ Val bool }
	EUnary struct {
		Op string
		X  Expr
	}
	EBinary struct {
		Op   string
		X, Y Expr
	}
	ECond  struct{ C, A, B Expr }
	EQuant struct {
		Forall   bool
		Vars     []QVar
		Triggers [][]Expr
		Body     Expr
	}
	ECall struct {
		Fun  Expr
		Args []Expr
	}
	EIndex struct{ X, I Expr }
	ESlice struct{ X, Lo, Hi Expr }
	ESel   struct {
		X    Expr
		Name string
	}
	ELet struct {
		Name string
		Val  Expr
		Body Expr
	}
)

type QVar struct {
	Name string
	Type string
}

type tok struct {
	kind string // id num str op eof
	text string
	pos  int
}

type specParser struct {
	src  string
	toks []tok
	i    int
}

func lexSpec(src string) ([]tok, error) {
	var toks []tok
	i := 0
	for i < len(src) {
		c := src[i]
		switch {
		case c == ' ' || c == '\t' || c == '\n' || c == '\r':
			i++
		case unicode.IsLetter(rune(c)) || c == '_' || c == '$':
			j := i
			for j < len(src) && (unicode.IsLetter(rune(src[j])) || unicode.IsDigit(rune(src[j])) || src[j] == '_' || src[j] == '$') {
				j++
			}
			toks = append(toks, tok{"id", src[i:j], i})
			i = j
		case c >= '0' && c <= '9':
			j := i
			isHex := strings.HasPrefix(src[i:], "0x") || strings.HasPrefix(src[i:], "0X")
			if isHex {
				j += 2
				for j < len(src) && strings.ContainsRune("0123456789abcdefABCDEF_", rune(src[j])) {
					j++
				}
			} else {
				for j < len(src) && (src[j] >= '0' && src[j] <= '9' || src[j] == '_') {
					j++
				}
				if j < len(src) && src[j] == '.' && j+1 < len(src) && src[j+1] >= '0' && src[j+1] <= '9' {
					j++
					for j < len(src) && src[j] >= '0' && src[j] <= '9' {
						j++
					}
				}
				if j < len(src) && (src[j] == 'e' || src[j] == 'E') {
					k := j + 1
					if k < len(src) && (src[k] == '+' || src[k] == '-') {
						k++
					}
					if k < len(src) && src[k] >= '0' && src[k] <= '9' {
						for k < len(src) && src[k] >= '0' && src[k] <= '9' {
							k++
						}
						j = k
					}
				}
			}
			toks = append(toks, tok{"num", src[i:j], i})
			i = j
		case c == '"':
			j := i + 1
			for j < len(src) && src[j] != '"' {
				if src[j] == '\\' {
					j++
				}
				j++
			}
			if j >= len(src) {
				return nil, fmt.Errorf("unterminated string at %d", i)
			}
			toks = append(toks, tok{"str", src[i+1 : j], i})
			i = j + 1
		default:
			ops := []string{"<==>", "==>", "::", "==", "!=", "<=", ">=", "&&", "||", "..",
				"+", "-", "*", "/", "%", "<", ">", "!", "(", ")", "[", "]", "{", "}", ",", ".", ":", "?", "="}
			found := false
			for _, op := range ops {
				if strings.HasPrefix(src[i:], op) {
					toks = append(toks, tok{"op", op, i})
					i += len(op)
					found = true
					break
				}
			}
			if !found {
				return nil, fmt.Errorf("unexpected character %q at %d in %q", c, i, src)
			}
		}
	}
	toks = append(toks, tok{"eof", "", len(src)})
	return toks, nil
}

func parseSpec(src string) (e Expr, err error) {
	toks, err := lexSpec(src)
	if err != nil {
		return nil, err
	}
	p := &specParser{src: src, toks: toks}
	defer func() {
		if r := recover(); r != nil {
			if pe, ok := r.(parseErr); ok {
				err = fmt.Errorf("%s (in %q)", string(pe), src)
				return
			}
			panic(r)
		}
	}()
	e = p.expr()
	if p.peek().kind != "eof" {
		p.fail("unexpected %q", p.peek().text)
	}
	return e, nil
}

type parseErr string

func (p *specParser) fail(f string, a ...any) { panic(parseErr(fmt.Sprintf(f, a...))) }
func (p *specParser) peek() tok               { return p.toks[p.i] }
func (p *specParser) next() tok               { t := p.toks[p.i]; p.i++; return t }
func (p *specParser) isOp(s string) bool {
	t := p.peek()
	return t.kind == "op" && t.text == s
}
func (p *specParser) isID(s string) bool {
	t := p.peek()
	return t.kind == "id" && t.text == s
}
func (p *specParser) expect(s string) {
	if !p.isOp(s) {
		p.fail("expected %q, found %q", s, p.peek().text)
	}
	p.next()
}

func (p *specParser) expr() Expr {
	if p.isID("forall") || p.isID("exists") {
		return p.quant()
	}
	if p.isID("let") {
		p.next()
		name := p.next()
		if name.kind != "id" {
			p.fail("let: expected name")
		}
		p.expect("=")
		val := p.ternary()
		if !p.isID("in") {
			p.fail("let: expected 'in'")
		}
		p.next()
		body := p.expr()
		return &ELet{name.text, val, body}
	}
	return p.ternary()
}

func (p *specParser) quant() Expr {
	q := &EQuant{Forall: p.next().text == "forall"}
	for {
		var names []string
		for {
			t := p.next()
			if t.kind != "id" {
				p.fail("quantifier: expected variable name, found %q", t.text)
			}
			names = append(names, t.text)
			if p.isOp(",") {
				p.next()
				continue
			}
			break
		}
		// type: id(.id)?
		t := p.next()
		if t.kind != "id" {
			p.fail("quantifier: expected type, found %q", t.text)
		}
		typ := t.text
		for p.isOp(".") {
			p.next()
			typ += "." + p.next().text
		}
		for _, n := range names {
			q.Vars = append(q.Vars, QVar{n, typ})
		}
		if p.isOp(",") {
			p.next()
			continue
		}
		break
	}
	p.expect("::")
	for p.isOp("{") {
		p.next()
		var trig []Expr
		for {
			trig = append(trig, p.ternary())
			if p.isOp(",") {
				p.next()
				continue
			}
			break
		}
		p.expect("}")
		q.Triggers = append(q.Triggers, trig)
	}
	q.Body = p.expr()
	return q
}

func (p *specParser) ternary() Expr {
	c := p.impl()
	if p.isOp("?") {
		p.next()
		a := p.expr()
		p.expect(":")
		b := p.expr()
		return &ECond{c, a, b}
	}
	return c
}

func (p *specParser) impl() Expr {
	x := p.orExpr()
	if p.isOp("==>") {
		p.next()
		var y Expr
		if p.isID("forall") || p.isID("exists") {
			y = p.quant()
		} else {
			y = p.impl()
		}
		return &EBinary{"==>", x, y}
	}
	if p.isOp("<==>") {
		p.next()
		y := p.orExpr()
		return &EBinary{"<==>", x, y}
	}
	return x
}

func (p *specParser) orExpr() Expr {
	x := p.andExpr()
	for p.isOp("||") {
		p.next()
		y := p.andExpr()
		x = &EBinary{"||", x, y}
	}
	return x
}

func (p *specParser) andExpr() Expr {
	x := p.cmp()
	for p.isOp("&&") {
		p.next()
		var y Expr
		if p.isID("forall") || p.isID("exists") {
			y = p.quant()
		} else {
			y = p.cmp()
		}
		x = &EBinary{"&&", x, y}
	}
	return x
}

func isCmp(s string) bool {
	switch s {
	case "==", "!=", "<", "<=", ">", ">=":
		return true
	}
	return false
}

func (p *specParser) cmp() Expr {
	x := p.add()
	var result Expr
	for {
		t := p.peek()
		if t.kind == "op" && isCmp(t.text) {
			p.next()
			y := p.add()
			c := Expr(&EBinary{t.text, x, y})
			if result == nil {
				result = c
			} else {
				result = &EBinary{"&&", result, c}
			}
			x = y
			continue
		}
		break
	}
	if result != nil {
		return result
	}
	return x
}

func (p *specParser) add() Expr {
	x := p.mul()
	for p.isOp("+") || p.isOp("-") {
		op := p.next().text
		y := p.mul()
		x = &EBinary{op, x, y}
	}
	return x
}

func (p *specParser) mul() Expr {
	x := p.unary()
	for p.isOp("*") || p.isOp("/") || p.isOp("%") {
		op := p.next().text
		y := p.unary()
		x = &EBinary{op, x, y}
	}
	return x
}

func (p *specParser) unary() Expr {
	if p.isOp("!") || p.isOp("-") {
		op := p.next().text
		x := p.unary()
		return &EUnary{op, x}
	}
	return p.postfix()
}

func (p *specParser) postfix() Expr {
	x := p.primary()
	for {
		switch {
		case p.isOp("."):
			p.next()
			t := p.next()
			if t.kind != "id" {
				p.fail("expected field name after '.'")
			}
			x = &ESel{x, t.text}
		case p.isOp("("):
			p.next()
			var args []Expr
			if !p.isOp(")") {
				for {
					args = append(args, p.expr())
					if p.isOp(",") {
						p.next()
						continue
					}
					break
				}
			}
			p.expect(")")
			x = &ECall{x, args}
		case p.isOp("["):
			p.next()
			var lo, hi Expr
			if !p.isOp(":") {
				lo = p.expr()
			}
			if p.isOp(":") {
				p.next()
				if !p.isOp("]") {
					hi = p.expr()
				}
				p.expect("]")
				x = &ESlice{x, lo, hi}
			} else {
				p.expect("]")
				x = &EIndex{x, lo}
			}
		default:
			return x
		}
	}
}

func (p *specParser) primary() Expr {
	t := p.next()
	switch t.kind {
	case "id":
		switch t.text {
		case "forall", "exists":
			p.i--
			return p.quant()
		case "true":
			return &EBool{true}
		case "false":
			return &EBool{false}
		}
		return &EIdent{t.text}
	case "num":
		txt := strings.ReplaceAll(t.text, "_", "")
		return &ENum{txt, strings.ContainsAny(txt, ".eE") && !strings.HasPrefix(txt, "0x")}
	case "str":
		return &EStr{t.text}
	case "op":
		if t.text == "(" {
			e := p.expr()
			p.expect(")")
			return e
		}
	}
	p.fail("unexpected %q", t.text)
	return nil
}
