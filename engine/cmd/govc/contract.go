package main

// Contract files: //@ clauses in comment-only Go files (build tag verif) inside /repo packages,
// and in /verif/contracts/ext/<name>.contracts for packages in the read-only module cache.

import (
	"fmt"
	"os"
	"path/filepath"
	"regexp"
	"strconv"
	"strings"
)

type Clause struct {
	Label string
	Src   string
	E     Expr
	File  string
	Line  int
	Local bool     // "exit" clause: may mention the function's locals; checked at returns, not assumed by callers
	Props []string // property ids this clause serves (from "[C01,C02]" tag) — empty: all of the function's
}

type LoopContract struct {
	Ordinal    int
	Invariants []*Clause
	Steps      []*Clause // "step": relation between the state at the loop head and at the end of the same iteration (prev(e) = e at the head)
	Decreases  *Clause
	Modifies   []string
}

type CallbackSpec struct {
	Param string
	Kind  string // pure | effect | havoc
	Src   string
}

type FuncContract struct {
	Pkg          string // import path
	Key          string // "Recv.Name" or "Name", closures "Name$1"
	File         string
	Line         int
	Pure         bool
	Trusted      bool // contract assumed, body not verified (must be listed in evidence)
	NoVerify     bool
	Returns      []string
	Requires     []*Clause
	Ensures      []*Clause
	Unclaimed    map[string]string
	GuardLock    string // "guarded <lock>: A.B, C.D": calls of the named methods happen only while <lock> is held
	GuardNames   []string
	GuardFields  []string  // "guardedfields <lock>: f1, f2": these fields of the lock's owner are read or written only while <lock> is held
	Panics       []*Clause // "panics when cond": reaching a panic is allowed only under cond ... informational
	NoPanic      []*Clause
	Modifies     []string
	HasModifies  bool
	Loops        map[int]*LoopContract
	Callbacks    []*CallbackSpec
	ForkJoin     string
	Footprint    [2]Expr // half-open interval of element indices a forked worker may touch
	FootprintSrc string
	Props        []string
	Ghost        []string
	Opaque       bool
	FreshResult  bool
	FrameOnly    bool
	ClaimOnly    bool // only property-tagged clauses and must-use obligations of this unit are claimed
	used         bool
}

type Lemma struct {
	Pkg      string
	Name     string
	Params   []QVar
	Requires []*Clause
	Ensures  []*Clause
	File     string
	Line     int
	Props    []string
	Using    []string
}

type SpecFunc struct {
	Pkg    string
	Name   string
	Params []QVar
	Result string
	Body   Expr // nil: uninterpreted
	Src    string
	File   string
	Line   int
	Axioms []*Clause
}

type Census struct {
	PkgPrefix string
	Names     []string
	Props     []string
	File      string
	Line      int
}

type Contracts struct {
	Censuses []*Census
	Funcs    map[string]*FuncContract // pkg + "::" + key
	Lemmas   []*Lemma
	Specs    map[string]*SpecFunc // pkg + "::" + name ; also "::"+name for global
	Files    []string
	Trusted  []string
}

var clauseKeywords = map[string]bool{
	"func": true, "lemma": true, "spec": true, "returns": true, "requires": true, "ensures": true, "exit": true, "unclaimed": true, "guarded": true, "census": true, "guardedfields": true, "step": true,
	"invariant": true, "decreases": true, "modifies": true, "pure": true, "loop": true, "callback": true,
	"panics": true, "forkjoin": true, "trusted": true, "nopanic": true, "axiom": true, "props": true,
	"package": true, "ghost": true, "using": true, "opaque": true, "footprint": true,
}

var labelRe = regexp.MustCompile(`^([A-Za-z_][A-Za-z0-9_.]*):(?:[^:]|$)`)
var propsRe = regexp.MustCompile(`^\[((?:C[0-9]+)(?:\s*,\s*C[0-9]+)*)\]\s*`)

type rawClause struct {
	kw   string
	text string
	file string
	line int
}

func readRawClauses(path string) ([]rawClause, error) {
	data, err := os.ReadFile(path)
	if err != nil {
		return nil, err
	}
	var out []rawClause
	for i, line := range strings.Split(string(data), "\n") {
		t := strings.TrimSpace(line)
		if !strings.HasPrefix(t, "//@") {
			continue
		}
		body := strings.TrimSpace(t[3:])
		if body == "" || strings.HasPrefix(body, "#") {
			continue
		}
		// strip trailing comment " // ..."
		if k := strings.Index(body, " // "); k >= 0 {
			body = strings.TrimSpace(body[:k])
		}
		fields := strings.Fields(body)
		kw := strings.TrimSuffix(fields[0], ":")
		if clauseKeywords[kw] && (len(fields) == 1 || !strings.HasPrefix(fields[1], "=")) {
			rest := strings.TrimSpace(body[len(fields[0]):])
			out = append(out, rawClause{kw, rest, path, i + 1})
		} else if len(out) > 0 {
			out[len(out)-1].text += " " + body
		} else {
			return nil, fmt.Errorf("%s:%d: continuation without clause", path, i+1)
		}
	}
	return out, nil
}

func mkClause(rc rawClause) (*Clause, error) {
	txt := rc.text
	c := &Clause{File: rc.file, Line: rc.line}
	if m := propsRe.FindStringSubmatch(txt); m != nil {
		for _, p := range strings.Split(m[1], ",") {
			c.Props = append(c.Props, strings.TrimSpace(p))
		}
		txt = txt[len(m[0]):]
	}
	if m := labelRe.FindStringSubmatch(txt); m != nil {
		c.Label = m[1]
		txt = strings.TrimSpace(txt[len(m[1])+1:])
	}
	c.Src = txt
	e, err := parseSpec(txt)
	if err != nil {
		return nil, fmt.Errorf("%s:%d: %v", rc.file, rc.line, err)
	}
	c.E = e
	return c, nil
}

func parseParams(s string) ([]QVar, error) {
	// "a T, b, c U"
	s = strings.TrimSpace(s)
	if s == "" {
		return nil, nil
	}
	var out []QVar
	var pending []string
	for _, part := range strings.Split(s, ",") {
		f := strings.Fields(part)
		switch len(f) {
		case 1:
			pending = append(pending, f[0])
		case 2:
			pending = append(pending, f[0])
			for _, n := range pending {
				out = append(out, QVar{n, f[1]})
			}
			pending = nil
		default:
			return nil, fmt.Errorf("bad parameter list %q", s)
		}
	}
	if len(pending) > 0 {
		return nil, fmt.Errorf("parameter without type in %q", s)
	}
	return out, nil
}

func (cs *Contracts) loadFile(path, pkg string) error {
	raws, err := readRawClauses(path)
	if err != nil {
		return err
	}
	if len(raws) == 0 {
		return nil
	}
	cs.Files = append(cs.Files, path)
	var curF *FuncContract
	var curL *Lemma
	var curS *SpecFunc
	var curLoop *LoopContract
	for _, rc := range raws {
		fail := func(f string, a ...any) error {
			return fmt.Errorf("%s:%d: %s", rc.file, rc.line, fmt.Sprintf(f, a...))
		}
		switch rc.kw {
		case "package":
			pkg = strings.TrimSpace(rc.text)
		case "func":
			f := strings.Fields(rc.text)
			if len(f) == 0 {
				return fail("func: missing name")
			}
			key := f[0]
			key = strings.TrimPrefix(key, "*")
			curF = &FuncContract{Pkg: pkg, Key: key, File: rc.file, Line: rc.line, Loops: map[int]*LoopContract{}}
			for _, extra := range f[1:] {
				switch extra {
				case "claimonly":
					curF.ClaimOnly = true
				case "pure":
					curF.Pure = true
				case "trusted":
					curF.Trusted = true
				case "freshresult":
					curF.FreshResult = true
				case "frameonly":
					curF.FrameOnly = true
				default:
					return fail("func: unknown modifier %q", extra)
				}
			}
			k := pkg + "::" + key
			if _, dup := cs.Funcs[k]; dup {
				return fail("duplicate contract for %s", k)
			}
			cs.Funcs[k] = curF
			curL, curS, curLoop = nil, nil, nil
		case "lemma":
			// lemma name(params)   (clauses follow)
			m := regexp.MustCompile(`^([A-Za-z_][A-Za-z0-9_]*)\s*\((.*)\)\s*:?$`).FindStringSubmatch(strings.TrimSpace(rc.text))
			if m == nil {
				return fail("lemma: expected name(params)")
			}
			ps, err := parseParams(m[2])
			if err != nil {
				return fail("%v", err)
			}
			curL = &Lemma{Pkg: pkg, Name: m[1], Params: ps, File: rc.file, Line: rc.line}
			cs.Lemmas = append(cs.Lemmas, curL)
			curF, curS, curLoop = nil, nil, nil
		case "spec":
			// spec name(params) type [= expr]
			m := regexp.MustCompile(`^([A-Za-z_][A-Za-z0-9_]*)\s*\(([^)]*)\)\s*((?:\[\]|\*)*[A-Za-z_][A-Za-z0-9_.]*)\s*(?:=\s*(.*))?$`).FindStringSubmatch(strings.TrimSpace(rc.text))
			if m == nil {
				return fail("spec: expected name(params) type [= expr]")
			}
			ps, err := parseParams(m[2])
			if err != nil {
				return fail("%v", err)
			}
			curS = &SpecFunc{Pkg: pkg, Name: m[1], Params: ps, Result: m[3], Src: m[4], File: rc.file, Line: rc.line}
			if strings.TrimSpace(m[4]) != "" {
				e, err := parseSpec(m[4])
				if err != nil {
					return fail("%v", err)
				}
				curS.Body = e
			}
			cs.Specs[pkg+"::"+m[1]] = curS
			curF, curL, curLoop = nil, nil, nil
		case "axiom":
			if curS == nil {
				return fail("axiom outside spec")
			}
			c, err := mkClause(rc)
			if err != nil {
				return err
			}
			curS.Axioms = append(curS.Axioms, c)
		case "guarded":
			if curF == nil {
				return fail("guarded outside func")
			}
			lock, names, ok := strings.Cut(rc.text, ":")
			if !ok {
				return fail("guarded: expected <lock>: names")
			}
			curF.GuardLock = strings.TrimSpace(lock)
			for _, n := range strings.FieldsFunc(names, func(r rune) bool { return r == ',' || r == ' ' }) {
				curF.GuardNames = append(curF.GuardNames, n)
			}
		case "guardedfields":
			if curF == nil {
				return fail("guardedfields outside func")
			}
			lock, names, ok := strings.Cut(rc.text, ":")
			if !ok {
				return fail("guardedfields: expected <lock>: field names")
			}
			curF.GuardLock = strings.TrimSpace(lock)
			for _, n := range strings.FieldsFunc(names, func(r rune) bool { return r == ',' || r == ' ' }) {
				curF.GuardFields = append(curF.GuardFields, n)
			}
		case "census":
			// "census <package path prefix> [C13]: A.B, C.D" — every call of a named method inside those packages
			// must sit in a function whose contract guards it
			head, names, ok := strings.Cut(rc.text, ":")
			if !ok {
				return fail("census: expected <pkgprefix>: names")
			}
			cn := &Census{File: rc.file, Line: rc.line}
			hf := strings.Fields(head)
			if len(hf) == 0 {
				return fail("census: missing package prefix")
			}
			cn.PkgPrefix = hf[0]
			for _, h := range hf[1:] {
				cn.Props = append(cn.Props, strings.Trim(h, "[],"))
			}
			for _, n := range strings.FieldsFunc(names, func(r rune) bool { return r == ',' || r == ' ' }) {
				cn.Names = append(cn.Names, n)
			}
			cs.Censuses = append(cs.Censuses, cn)
		case "unclaimed":
			// "unclaimed <obligation kind>: reason" — obligations of that kind in this unit are generated and
			// solved but not claimed for the unit's properties (the reason is reported in the evidence)
			if curF == nil {
				return fail("unclaimed outside func")
			}
			kind, reason, _ := strings.Cut(rc.text, ":")
			if curF.Unclaimed == nil {
				curF.Unclaimed = map[string]string{}
			}
			curF.Unclaimed[strings.TrimSpace(kind)] = strings.TrimSpace(reason)
		case "props":
			var ps []string
			for _, p := range strings.FieldsFunc(rc.text, func(r rune) bool { return r == ',' || r == ' ' }) {
				ps = append(ps, p)
			}
			if curF != nil {
				curF.Props = ps
			} else if curL != nil {
				curL.Props = ps
			} else {
				return fail("props outside func/lemma")
			}
		case "using":
			if curL == nil {
				return fail("using outside lemma")
			}
			curL.Using = append(curL.Using, strings.Fields(strings.ReplaceAll(rc.text, ",", " "))...)
		case "pure":
			if curF == nil {
				return fail("pure outside func")
			}
			curF.Pure = true
		case "opaque":
			if curF == nil {
				return fail("opaque outside func")
			}
			curF.Opaque = true
		case "trusted":
			if curF == nil {
				return fail("trusted outside func")
			}
			curF.Trusted = true
		case "footprint":
			if curF == nil {
				return fail("footprint outside func")
			}
			parts := strings.SplitN(rc.text, "..", 2)
			if len(parts) != 2 {
				return fail("footprint: expected 'lo .. hi'")
			}
			lo, err1 := parseSpec(parts[0])
			hi, err2 := parseSpec(parts[1])
			if err1 != nil || err2 != nil {
				return fail("footprint: %v %v", err1, err2)
			}
			curF.Footprint = [2]Expr{lo, hi}
			curF.FootprintSrc = rc.text
		case "forkjoin":
			if curF == nil {
				return fail("forkjoin outside func")
			}
			curF.ForkJoin = strings.TrimSpace(rc.text)
		case "returns":
			if curF == nil {
				return fail("returns outside func")
			}
			for _, n := range strings.FieldsFunc(rc.text, func(r rune) bool { return r == ',' || r == ' ' }) {
				curF.Returns = append(curF.Returns, n)
			}
		case "ghost":
			if curF == nil {
				return fail("ghost outside func")
			}
			curF.Ghost = append(curF.Ghost, rc.text)
		case "callback":
			if curF == nil {
				return fail("callback outside func")
			}
			m := regexp.MustCompile(`^([A-Za-z_][A-Za-z0-9_]*)\s*:\s*(pure|effect|havoc|fresh)\s*(.*)$`).FindStringSubmatch(strings.TrimSpace(rc.text))
			if m == nil {
				return fail("callback: expected 'name: pure|effect|havoc|fresh ...'")
			}
			curF.Callbacks = append(curF.Callbacks, &CallbackSpec{m[1], m[2], m[3]})
		case "modifies":
			items := strings.FieldsFunc(rc.text, func(r rune) bool { return r == ',' })
			var ms []string
			for _, it := range items {
				it = strings.TrimSpace(it)
				if it != "" && it != "nothing" {
					ms = append(ms, it)
				}
			}
			if curLoop != nil {
				curLoop.Modifies = append(curLoop.Modifies, ms...)
			} else if curF != nil {
				curF.Modifies = append(curF.Modifies, ms...)
				curF.HasModifies = true
			} else {
				return fail("modifies outside func")
			}
		case "loop":
			if curF == nil {
				return fail("loop outside func")
			}
			n, err := strconv.Atoi(strings.TrimSuffix(strings.TrimSpace(rc.text), ":"))
			if err != nil {
				return fail("loop: expected ordinal")
			}
			curLoop = &LoopContract{Ordinal: n}
			curF.Loops[n] = curLoop
		case "requires", "ensures", "exit", "invariant", "step", "decreases", "panics", "nopanic":
			c, err := mkClause(rc)
			if err != nil {
				return err
			}
			switch {
			case rc.kw == "invariant" || rc.kw == "decreases" || rc.kw == "step":
				if curLoop == nil {
					return fail("%s outside loop", rc.kw)
				}
				if rc.kw == "invariant" {
					curLoop.Invariants = append(curLoop.Invariants, c)
				} else if rc.kw == "step" {
					curLoop.Steps = append(curLoop.Steps, c)
				} else {
					curLoop.Decreases = c
				}
			case curL != nil:
				if rc.kw == "requires" {
					curL.Requires = append(curL.Requires, c)
				} else if rc.kw == "ensures" {
					curL.Ensures = append(curL.Ensures, c)
				} else {
					return fail("%s in lemma", rc.kw)
				}
			case curF != nil:
				switch rc.kw {
				case "requires":
					curF.Requires = append(curF.Requires, c)
				case "ensures":
					curF.Ensures = append(curF.Ensures, c)
				case "exit":
					// a postcondition over the function's own locals at every return: checked, never exported to callers
					c.Local = true
					curF.Ensures = append(curF.Ensures, c)
				case "panics":
					curF.Panics = append(curF.Panics, c)
				case "nopanic":
					curF.NoPanic = append(curF.NoPanic, c)
				}
			default:
				return fail("%s outside func/lemma", rc.kw)
			}
		}
	}
	return nil
}

// loadContracts reads every zz_contracts_verif.go under repoDir and every *.contracts under extDir.
func loadContracts(repoDir, module, extDir string) (*Contracts, error) {
	cs := &Contracts{Funcs: map[string]*FuncContract{}, Specs: map[string]*SpecFunc{}}
	err := filepath.Walk(repoDir, func(path string, info os.FileInfo, err error) error {
		if err != nil {
			return nil
		}
		if info.IsDir() {
			if strings.HasPrefix(info.Name(), ".") && path != repoDir {
				return filepath.SkipDir
			}
			return nil
		}
		if info.Name() != "zz_contracts_verif.go" {
			return nil
		}
		rel, _ := filepath.Rel(repoDir, filepath.Dir(path))
		pkg := module
		if rel != "." {
			pkg = module + "/" + filepath.ToSlash(rel)
		}
		return cs.loadFile(path, pkg)
	})
	if err != nil {
		return nil, err
	}
	exts, _ := filepath.Glob(filepath.Join(extDir, "*.contracts"))
	for _, p := range exts {
		if err := cs.loadFile(p, ""); err != nil {
			return nil, err
		}
	}
	return cs, nil
}

// mentions reports whether any clause of the contract contains the given text.
func (fc *FuncContract) mentions(txt string) bool {
	has := func(cs []*Clause) bool {
		for _, c := range cs {
			if strings.Contains(c.Src, txt) {
				return true
			}
		}
		return false
	}
	if has(fc.Requires) || has(fc.Ensures) {
		return true
	}
	for _, l := range fc.Loops {
		if has(l.Invariants) || has(l.Steps) {
			return true
		}
	}
	return false
}
