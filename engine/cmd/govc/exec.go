package main

// Symbolic execution of go/ssa function bodies into verification conditions.

import (
	"fmt"
	"go/constant"
	"go/token"
	"go/types"
	"math/big"
	"sort"
	"strings"

	"golang.org/x/tools/go/ssa"
)

type retInfo struct {
	st    *state
	vals  []T
	block *ssa.BasicBlock
}

type dbgRef struct {
	name   string
	obj    types.Object
	val    ssa.Value
	isAddr bool
	block  *ssa.BasicBlock
	idx    int
}

type closureVal struct {
	fn       *ssa.Function
	bindings []ssa.Value
	bindT    []T
	bindA    []*addr
}

type frame struct {
	vc            *VC
	fn            *ssa.Function
	fc            *FuncContract
	pfx           string
	name          string
	vals          map[ssa.Value]T
	addrs         map[ssa.Value]*addr
	tuples        map[ssa.Value][]T
	clos          map[ssa.Value]*closureVal
	inline        bool
	depth         int
	entry         *state
	next0         string
	modRefs       []string
	modAll        bool
	loops         []*Loop
	loopAt        map[*ssa.BasicBlock]*Loop
	out           map[*ssa.BasicBlock]*state
	conds         map[*ssa.BasicBlock]string
	rets          []retInfo
	loopHeadState map[*Loop]*state
	callLog       map[string][]T // straight-line functions: first non-receiver argument of every static call, by callee name
	debug         []dbgRef
	caller        *frame
	inputs        []string // names of input constants (for models)
	params        map[string]T
	paramA        map[string]*addr
	defers        []*ssa.Defer
	loopMeasure   map[*Loop]string
	callbacks     map[string]*CallbackSpec
	ghostVisits   bool
	skipWrap      bool
	curBlock      *ssa.BasicBlock
	fi            *freshInfo
	loopMods      map[*Loop]*loopMod
	iterMap       map[ssa.Value]*iterState
}

func newFrame(vc *VC, fn *ssa.Function, pfx string) *frame {
	return &frame{vc: vc, fn: fn, pfx: pfx, name: displayName(fn),
		vals: map[ssa.Value]T{}, addrs: map[ssa.Value]*addr{}, tuples: map[ssa.Value][]T{}, clos: map[ssa.Value]*closureVal{},
		loopAt: map[*ssa.BasicBlock]*Loop{}, out: map[*ssa.BasicBlock]*state{}, conds: map[*ssa.BasicBlock]string{},
		params: map[string]T{}, paramA: map[string]*addr{}, loopMeasure: map[*Loop]string{}, callbacks: map[string]*CallbackSpec{}}
}

func (fr *frame) pos(p token.Pos) string { return fr.vc.P.pos(p) }

func (fr *frame) obligeHere(kind, label string, st *state, goal, pos string) *Obligation {
	if fr.inline {
		return nil
	}
	if fr.fc != nil && fr.fc.FrameOnly && !strings.HasPrefix(kind, "frame.") && !strings.HasPrefix(kind, "mustuse") {
		return nil
	}
	o := fr.vc.oblige(kind, label, fr.name, st.reach, goal, pos)
	o.Values = fr.rootInputs()
	if kind == "safe.makelen" {
		// execution continues past a run-time check only when it passed (it panics otherwise)
		fr.vc.assume(st.reach, goal)
	}
	return o
}

func (fr *frame) rootInputs() []string {
	f := fr
	for f.caller != nil {
		f = f.caller
	}
	return f.inputs
}

func (fr *frame) frameCheck(kind, ref string, st *state, pos string, alts0 ...string) {
	if fr.inline {
		// an inlined pure callee may only write fresh memory; checked in its own unit
		return
	}
	if fr.modAll {
		return
	}
	alts := []string{fmt.Sprintf("(>= %s %s)", ref, fr.next0)}
	alts = append(alts, alts0...)
	for _, m := range fr.modRefs {
		alts = append(alts, fmt.Sprintf("(= %s %s)", ref, m))
	}
	fr.obligeHere(kind, "", st, or(alts...), pos)
	// enclosing loops with a "modifies" clause: writes stay inside the declared set (or fresh memory)
	if fr.curBlock != nil {
		for _, l := range fr.loops {
			lm := fr.loopMods[l]
			if lm == nil || !l.Blocks[fr.curBlock] {
				continue
			}
			la := []string{fmt.Sprintf("(>= %s %s)", ref, lm.next)}
			la = append(la, alts0...)
			for _, m := range lm.refs {
				la = append(la, fmt.Sprintf("(= %s %s)", ref, m))
			}
			fr.obligeHere("frame.loop", fmt.Sprintf("loop%d", l.Ordinal), st, or(la...), pos)
		}
	}
}

type loopMod struct {
	refs []string
	next string
}

// ---- CFG order ------------------------------------------------------------------------------------

func topoOrder(fn *ssa.Function) []*ssa.BasicBlock {
	var order []*ssa.BasicBlock
	seen := map[*ssa.BasicBlock]bool{}
	var dfs func(b *ssa.BasicBlock)
	dfs = func(b *ssa.BasicBlock) {
		seen[b] = true
		for i := len(b.Succs) - 1; i >= 0; i-- {
			s := b.Succs[i]
			if s.Dominates(b) { // back edge
				continue
			}
			if !seen[s] {
				dfs(s)
			}
		}
		order = append(order, b)
	}
	if len(fn.Blocks) > 0 {
		dfs(fn.Blocks[0])
	}
	for i, j := 0, len(order)-1; i < j; i, j = i+1, j-1 {
		order[i], order[j] = order[j], order[i]
	}
	return order
}

func (fr *frame) edgeCond(p, b *ssa.BasicBlock) string {
	if len(p.Succs) == 2 {
		c := fr.conds[p]
		if p.Succs[0] == b && p.Succs[1] == b {
			return "true"
		}
		if p.Succs[0] == b {
			return c
		}
		return not(c)
	}
	return "true"
}

type edge struct {
	pred  *ssa.BasicBlock
	pidx  int
	st    *state
	reach string
}

func (fr *frame) mergeEdges(b *ssa.BasicBlock, edges []edge) *state {
	vc := fr.vc
	if len(edges) == 1 {
		st := edges[0].st.clone()
		st.reach = edges[0].reach
		return st
	}
	var rs []string
	for _, e := range edges {
		rs = append(rs, e.reach)
	}
	st := &state{cells: map[*ssa.Alloc]T{}, heap: map[string]string{}}
	st.reach = vc.define(fr.pfx+fmt.Sprintf("R%d", b.Index), "Bool", or(rs...))
	// epoch
	same := true
	for _, e := range edges[1:] {
		if e.st.epoch != edges[0].st.epoch {
			same = false
		}
	}
	if same {
		st.epoch = edges[0].st.epoch
	} else {
		vc.epochCtr++
		st.epoch = vc.epochCtr
	}
	// next
	st.next = fr.mergeTerm("next", "Int", edges, func(s *state) string { return s.next })
	// cells: union of keys
	cellKeys := map[*ssa.Alloc]bool{}
	for _, e := range edges {
		for k := range e.st.cells {
			cellKeys[k] = true
		}
	}
	var cks []*ssa.Alloc
	for k := range cellKeys {
		cks = append(cks, k)
	}
	sort.Slice(cks, func(i, j int) bool { return cks[i].Name() < cks[j].Name() })
	for _, k := range cks {
		all := true
		for _, e := range edges {
			if _, ok := e.st.cells[k]; !ok {
				all = false
			}
		}
		if !all {
			continue // cell not live on every path: dead here
		}
		proto := edges[0].st.cells[k]
		s := fr.mergeTerm(fr.pfx+k.Name()+"_cell", proto.Sort, edges, func(s *state) string { return s.cells[k].S })
		st.cells[k] = T{s, proto.Sort, proto.GT}
	}
	// heap: union of keys (when epochs differ, every registered name)
	hk := map[string]bool{}
	for _, e := range edges {
		for k := range e.st.heap {
			hk[k] = true
		}
	}
	if !same {
		for _, n := range vc.heapOrder {
			hk[n] = true
		}
	}
	var hks []string
	for k := range hk {
		hks = append(hks, k)
	}
	sort.Strings(hks)
	for _, k := range hks {
		k := k
		s := fr.mergeTerm(k, vc.heapNames[k], edges, func(s *state) string { return vc.heapGetQuiet(s, k) })
		st.heap[k] = s
		if ks2, vs2, isDom, isMap := vc.mapSortsOf(k); isMap && len(vc.capStack) == 0 {
			same := true
			for _, e := range edges {
				if vc.heapGetQuiet(e.st, k) != s {
					same = false
				}
			}
			if !same {
				f := func(h string) string {
					if isDom {
						return vc.mhas(ks2, h, "m", "k")
					}
					return vc.mval(ks2, vs2, h, "m", "k")
				}
				term := f(vc.heapGetQuiet(edges[len(edges)-1].st, k))
				for i := len(edges) - 2; i >= 0; i-- {
					term = ite(edges[i].reach, f(vc.heapGetQuiet(edges[i].st, k)), term)
				}
				am := f(s)
				vc.emit(fmt.Sprintf("(assert (forall ((m Int) (k %s)) (! (= %s %s) :pattern (%s))))", ks2, am, term, am))
			}
		}
		if es, isArr := vc.elemSortOfArr(k); isArr && len(vc.capStack) == 0 {
			same := true
			for _, e := range edges {
				if vc.heapGetQuiet(e.st, k) != s {
					same = false
				}
			}
			if !same {
				term := vc.at(es, vc.heapGetQuiet(edges[len(edges)-1].st, k), "s", "j")
				for i := len(edges) - 2; i >= 0; i-- {
					term = ite(edges[i].reach, vc.at(es, vc.heapGetQuiet(edges[i].st, k), "s", "j"), term)
				}
				am := vc.at(es, s, "s", "j")
				vc.emit(fmt.Sprintf("(assert (forall ((s Slice) (j Int)) (! (= %s %s) :pattern (%s))))", am, term, am))
			}
		}
	}
	return st
}

func (fr *frame) mergeTerm(base string, srt Sort, edges []edge, get func(*state) string) string {
	first := get(edges[0].st)
	same := true
	for _, e := range edges[1:] {
		if get(e.st) != first {
			same = false
			break
		}
	}
	if same {
		return first
	}
	term := get(edges[len(edges)-1].st)
	for i := len(edges) - 2; i >= 0; i-- {
		term = ite(edges[i].reach, get(edges[i].st), term)
	}
	if (strings.HasPrefix(base, "Arr_") || strings.HasPrefix(base, "Dom_") || strings.HasPrefix(base, "Val_")) && len(fr.vc.capStack) == 0 {
		n := fr.vc.fresh(base)
		fr.vc.emit(fmt.Sprintf("(declare-const %s %s)", n, srt))
		fr.vc.emit(fmt.Sprintf("(assert (= %s %s))", n, term))
		return n
	}
	return fr.vc.define(base, srt, term)
}

// ---- main loop -----------------------------------------------------------------------------------

func (fr *frame) run(st0 *state) {
	fn := fr.fn
	if len(fn.Blocks) == 0 {
		bail("function %s has no body", fn)
	}
	fr.loops = findLoops(fn)
	for _, l := range fr.loops {
		fr.loopAt[l.Header] = l
	}
	if len(fr.loops) > 0 {
		if fr.inline {
			bail("pure function %s contains a loop", fn)
		}
		if err := matchLoops(fn, fr.loops); err != nil {
			bail("%v", err)
		}
	}
	fr.collectDebug()
	if !fr.inline {
		fr.fi = analyseFresh(fr.vc.P, fn)
		if len(fr.fi.fresh) > 0 {
			fr.vc.assumedStd["freshness of loop-carried values and of values looked up in locally built maps is inferred by a static allocation-site analysis (greatest fixpoint) and assumed where those values are produced"] = true
		}
	}
	order := topoOrder(fn)
	for _, b := range order {
		var st *state
		if b == fn.Blocks[0] {
			st = st0
		} else {
			st = fr.blockIn(b)
		}
		if st == nil {
			continue
		}
		terminated := false
		fr.curBlock = b
		for _, in := range b.Instrs {
			if _, ok := in.(*ssa.Phi); ok {
				continue
			}
			if fr.step(in, st) {
				terminated = true
				break
			}
		}
		if !terminated {
			fr.out[b] = st
			// back edges out of this block
			for _, s := range b.Succs {
				if s.Dominates(b) {
					fr.backEdge(b, s, st)
				}
			}
		}
	}
}

func (fr *frame) collectDebug() {
	for _, b := range fr.fn.Blocks {
		for i, in := range b.Instrs {
			if d, ok := in.(*ssa.DebugRef); ok {
				if id, ok := d.Expr.(interface{ String() string }); ok {
					_ = id
				}
				name := ""
				if d.Object() != nil {
					name = d.Object().Name()
				}
				if name == "" {
					continue
				}
				fr.debug = append(fr.debug, dbgRef{name, d.Object(), d.X, d.IsAddr, b, i})
			}
		}
	}
}

func (fr *frame) blockIn(b *ssa.BasicBlock) *state {
	var edges []edge
	for i, p := range b.Preds {
		if b.Dominates(p) {
			continue // back edge
		}
		ps := fr.out[p]
		if ps == nil {
			continue
		}
		edges = append(edges, edge{p, i, ps, and(ps.reach, fr.edgeCond(p, b))})
	}
	if len(edges) == 0 {
		return nil
	}
	// name edge reaches when merging several
	if len(edges) > 1 {
		for i := range edges {
			if len(edges[i].reach) > 40 {
				edges[i].reach = fr.vc.define(fr.pfx+fmt.Sprintf("E%d_%d", edges[i].pred.Index, b.Index), "Bool", edges[i].reach)
			}
		}
	}
	st := fr.mergeEdges(b, edges)
	// phi values on the forward edges
	phiIn := map[*ssa.Phi]T{}
	for _, in := range b.Instrs {
		phi, ok := in.(*ssa.Phi)
		if !ok {
			break
		}
		var term string
		var proto T
		for k := len(edges) - 1; k >= 0; k-- {
			v := fr.val(phi.Edges[edges[k].pidx])
			proto = v
			if term == "" {
				term = v.S
			} else {
				term = ite(edges[k].reach, v.S, term)
			}
		}
		proto.GT = phi.Type()
		proto.Sort = fr.vc.sortOf(phi.Type())
		phiIn[phi] = T{term, proto.Sort, proto.GT}
	}
	if l := fr.loopAt[b]; l != nil {
		return fr.loopHead(l, st, phiIn)
	}
	for phi, v := range phiIn {
		_ = phi
		_ = v
	}
	for _, in := range b.Instrs {
		phi, ok := in.(*ssa.Phi)
		if !ok {
			break
		}
		v := phiIn[phi]
		fr.vals[phi] = T{fr.vc.define(fr.pfx+phi.Name(), v.Sort, v.S), v.Sort, v.GT}
	}
	return st
}

// step executes one instruction; returns true if the path ends (return/panic).
func (fr *frame) step(in ssa.Instruction, st *state) bool {
	vc := fr.vc
	switch x := in.(type) {
	case *ssa.DebugRef:
		return false
	case *ssa.Alloc:
		fr.doAlloc(x, st)
	case *ssa.FieldAddr:
		base := fr.addrOf(x.X, st)
		pt := unalias(x.X.Type()).Underlying().(*types.Pointer)
		su := structOf(pt.Elem())
		fr.guardFieldAccess(x, x.X, pt.Elem(), su.Field(x.Field).Name(), st, fr.pos(x.Pos()))
		fr.addrs[x] = &addr{kind: aField, base: base, field: x.Field, typ: su.Field(x.Field).Type()}
	case *ssa.IndexAddr:
		fr.doIndexAddr(x, st)
	case *ssa.UnOp:
		fr.doUnOp(x, st)
	case *ssa.Store:
		a := fr.addrOf(x.Addr, st)
		v := fr.val(x.Val)
		fr.store(a, v, st, fr.pos(x.Pos()))
	case *ssa.BinOp:
		if info := bitsOf(x, 0); info.ok && fitsType(info, x.Type()) && (x.Op == token.OR || x.Op == token.SHL || x.Op == token.AND) {
			fr.skipWrap = true
			defer func() { fr.skipWrap = false }()
		}
		if x.Op == token.OR {
			// operands with statically disjoint bit ranges: a | b == a + b (exact)
			ia, ib := bitsOf(x.X, 0), bitsOf(x.Y, 0)
			if ia.ok && ib.ok && (ia.max <= ib.lowZero || ib.max <= ia.lowZero) {
				a, b := fr.val(x.X), fr.val(x.Y)
				fr.setVal(x, fr.wrapInt(T{fmt.Sprintf("(+ %s %s)", a.S, b.S), "Int", x.Type()}, x.Type()))
				break
			}
		}
		fr.setVal(x, fr.binop(x.Op, fr.val(x.X), fr.val(x.Y), x.Type(), st, fr.pos(x.Pos())))
	case *ssa.Field:
		fr.setVal(x, vc.getField(fr.val(x.X), x.Field))
	case *ssa.Index:
		xv := fr.val(x.X)
		iv := fr.val(x.Index)
		switch u := unalias(x.X.Type()).Underlying().(type) {
		case *types.Array:
			fr.obligeHere("safe.index", "", st, fmt.Sprintf("(and (<= 0 %s) (< %s %d))", iv.S, iv.S, u.Len()), fr.pos(x.Pos()))
			fr.setVal(x, T{fmt.Sprintf("(select %s %s)", xv.S, iv.S), vc.sortOf(u.Elem()), u.Elem()})
		default:
			// string indexing: abstracted byte
			fr.havocVal(x, st, "string index")
		}
	case *ssa.Convert:
		if info := bitsOf(x, 0); info.ok && fitsType(info, x.Type()) && isInteger(x.X.Type()) {
			if in := bitsOf(x.X, 0); in.ok {
				fr.skipWrap = true
				defer func() { fr.skipWrap = false }()
			}
		}
		fr.setVal(x, fr.convert(fr.val(x.X), x.X.Type(), x.Type(), st))
	case *ssa.ChangeType:
		v := fr.val(x.X)
		v.GT = x.Type()
		fr.setVal(x, v)
		if a, ok := fr.addrs[x.X]; ok {
			fr.addrs[x] = a
		}
		if c, ok := fr.clos[x.X]; ok {
			fr.clos[x] = c
		}
	case *ssa.ChangeInterface:
		v := fr.val(x.X)
		v.GT = x.Type()
		fr.setVal(x, v)
	case *ssa.MakeInterface:
		fr.doMakeInterface(x, st)
	case *ssa.TypeAssert:
		fr.doTypeAssert(x, st)
	case *ssa.Call:
		res := fr.call(x.Common(), x, st, fr.pos(x.Pos()))
		if res == nil {
			return true // callee never returns (panic)
		}
		if x.Type() != nil {
			if tup, ok := x.Type().(*types.Tuple); ok {
				if tup.Len() > 0 {
					fr.tuples[x] = res
				}
			} else if len(res) == 1 {
				r := res[0]
				r.GT = x.Type()
				fr.setValNamed(x, r)
				fr.assumeStaticFresh(x, fr.vals[x], st)
			}
		}
	case *ssa.Extract:
		tv, ok := fr.tuples[x.Tuple]
		if !ok {
			bail("extract from unknown tuple %s", x.Tuple.Name())
		}
		r := tv[x.Index]
		r.GT = x.Type()
		fr.setValNamed(x, r)
	case *ssa.MakeSlice:
		fr.doMakeSlice(x, st)
	case *ssa.Slice:
		fr.doSlice(x, st)
	case *ssa.MakeMap:
		fr.doMakeMap(x, st)
	case *ssa.MapUpdate:
		fr.doMapUpdate(x, st)
	case *ssa.Lookup:
		fr.doLookup(x, st)
	case *ssa.Range:
		fr.doRange(x, st)
	case *ssa.Next:
		fr.doNext(x, st)
	case *ssa.MakeClosure:
		fr.doMakeClosure(x, st)
	case *ssa.MakeChan:
		r := vc.alloc(st)
		fr.setVal(x, T{r, "Int", x.Type()})
	case *ssa.If:
		fr.conds[in.Block()] = fr.val(x.Cond).S
	case *ssa.Jump:
	case *ssa.Return:
		fr.doReturn(x, st)
		return true
	case *ssa.Panic:
		fr.doPanic(x, st)
		return true
	case *ssa.Defer:
		fr.defers = append(fr.defers, x)
	case *ssa.RunDefers:
		fr.runDefers(st)
	case *ssa.Go:
		fr.doGo(x, st)
	case *ssa.Send:
		fr.abstract("channel send")
	case *ssa.Select:
		fr.abstract("select")
		vc.havocAll(st)
		tup := x.Type().(*types.Tuple)
		var res []T
		for i := 0; i < tup.Len(); i++ {
			res = append(res, fr.freshOf(fmt.Sprintf("%s_sel%d", x.Name(), i), tup.At(i).Type(), st))
		}
		fr.tuples[x] = res
	default:
		bail("unsupported instruction %T: %s", in, in)
	}
	return false
}

func (fr *frame) abstract(what string) {
	fr.vc.abstracted[fmt.Sprintf("%s: %s", fr.name, what)] = true
}

func (fr *frame) setVal(v ssa.Value, t T) {
	if t.GT == nil {
		t.GT = v.Type()
	}
	fr.setValNamed(v, t)
}

func (fr *frame) setValNamed(v ssa.Value, t T) {
	n := fr.vc.define(fr.pfx+v.Name(), t.Sort, t.S)
	fr.vals[v] = T{n, t.Sort, t.GT}
}

func (fr *frame) freshOf(base string, t types.Type, st *state) T {
	s := fr.vc.sortOf(t)
	n := fr.vc.declareConst(fr.pfx+base, s)
	v := T{n, s, t}
	for _, c := range fr.vc.validity(v, 0) {
		fr.vc.assume("true", c)
	}
	return v
}

func (fr *frame) havocVal(v ssa.Value, st *state, why string) {
	fr.abstract(why)
	fr.vals[v] = fr.freshOf(v.Name(), v.Type(), st)
}

func (fr *frame) val(v ssa.Value) T {
	if t, ok := fr.vals[v]; ok {
		return t
	}
	vc := fr.vc
	switch x := v.(type) {
	case *ssa.Const:
		if x.Value == nil {
			return vc.zero(x.Type())
		}
		return vc.constTerm(x.Value, x.Type())
	case *ssa.Function:
		id := vc.P.strLit("func:" + x.String())
		t := T{id, "Int", x.Type()}
		fr.clos[v] = &closureVal{fn: x}
		return t
	case *ssa.Global:
		// pointer to global: only usable through addrOf
		return T{vc.P.strLit("global:" + x.String()), "Int", x.Type()}
	case *ssa.Builtin:
		return T{"0", "Int", nil}
	}
	if fa, ok := v.(*ssa.FieldAddr); ok {
		// the address of a field used as a value (a mutex handed to Lock/Unlock): a function of the
		// struct pointer and the field, so that two takes of the same address agree
		if _, isPtr := unalias(fa.X.Type()).Underlying().(*types.Pointer); isPtr {
			fr.vc.decl("iptr", "(declare-fun iptr (Int Int) Int)")
			t := T{fmt.Sprintf("(iptr %s %d)", fr.val(fa.X).S, fa.Field), "Int", v.Type()}
			fr.vals[v] = t
			return t
		}
	}
	switch v.(type) {
	case *ssa.IndexAddr, *ssa.FieldAddr:
		// an interior pointer used as a value (passed on, stored): opaque
		fr.abstract("interior pointer used as a value")
		n := fr.vc.declareConst(fr.pfx+v.Name()+"_iptr", "Int")
		t := T{n, "Int", v.Type()}
		fr.vals[v] = t
		return t
	}
	bail("value %s (%T) of %s not available", v.Name(), v, fr.fn)
	return T{}
}

func (fr *frame) addrOf(v ssa.Value, st *state) *addr {
	if a, ok := fr.addrs[v]; ok {
		return a
	}
	if g, ok := v.(*ssa.Global); ok {
		return &addr{kind: aGlobal, glob: g, typ: g.Type().(*types.Pointer).Elem()}
	}
	pt, ok := unalias(v.Type()).Underlying().(*types.Pointer)
	if !ok {
		bail("addrOf non-pointer %s", v.Name())
	}
	ref := fr.val(v)
	if _, isArr := unalias(pt.Elem()).Underlying().(*types.Array); isArr {
		return &addr{kind: aArrPtr, ref: ref.S, typ: pt.Elem()}
	}
	return &addr{kind: aHeap, ref: ref.S, typ: pt.Elem()}
}

func (fr *frame) doAlloc(x *ssa.Alloc, st *state) {
	vc := fr.vc
	et := x.Type().(*types.Pointer).Elem()
	if !x.Heap {
		st.cells[x] = vc.zero(et)
		fr.addrs[x] = &addr{kind: aCell, alloc: x, typ: et}
		return
	}
	r := vc.alloc(st)
	fr.vals[x] = T{r, "Int", x.Type()}
	z := vc.zero(et)
	if arr, isArr := unalias(et).Underlying().(*types.Array); isArr {
		es := vc.sortOf(arr.Elem())
		h := vc.heapArr(es)
		vc.heapStoreRef(st, h, r, z.S)
		fr.addrs[x] = &addr{kind: aArrPtr, ref: r, typ: et}
		return
	}
	h := vc.heapPtr(z.Sort)
	vc.heapSet(st, h, fmt.Sprintf("(store %s %s %s)", vc.heapGet(st, h), r, z.S))
	fr.addrs[x] = &addr{kind: aHeap, ref: r, typ: et}
}

func (fr *frame) doIndexAddr(x *ssa.IndexAddr, st *state) {
	vc := fr.vc
	iv := fr.val(x.Index)
	switch u := unalias(x.X.Type()).Underlying().(type) {
	case *types.Slice:
		sv := fr.val(x.X)
		fr.obligeHere("safe.index", "", st, fmt.Sprintf("(and (<= 0 %s) (< %s (s_len %s)))", iv.S, iv.S, sv.S), fr.pos(x.Pos()))
		fr.addrs[x] = &addr{kind: aElem, ref: fmt.Sprintf("(s_arr %s)", sv.S), pos: fmt.Sprintf("(+ (s_off %s) %s)", sv.S, iv.S), typ: u.Elem(), sl: sv.S, idx: iv.S}
	case *types.Pointer:
		arr := unalias(u.Elem()).Underlying().(*types.Array)
		fr.obligeHere("safe.index", "", st, fmt.Sprintf("(and (<= 0 %s) (< %s %d))", iv.S, iv.S, arr.Len()), fr.pos(x.Pos()))
		base := fr.addrOf(x.X, st)
		if base.kind == aArrPtr {
			fr.addrs[x] = &addr{kind: aElem, ref: base.ref, pos: iv.S, typ: arr.Elem()}
		} else {
			fr.addrs[x] = &addr{kind: aIndex, base: base, pos: iv.S, typ: arr.Elem()}
		}
	default:
		bail("IndexAddr on %s", x.X.Type())
	}
	_ = vc
}

func (fr *frame) doUnOp(x *ssa.UnOp, st *state) {
	vc := fr.vc
	switch x.Op {
	case token.MUL:
		if pt, ok := unalias(x.X.Type()).Underlying().(*types.Pointer); ok {
			if structOf(pt.Elem()) != nil {
				// copying a whole struct reads every field of it (value-receiver method calls do this)
				fr.guardFieldAccess(x, x.X, pt.Elem(), "*", st, fr.pos(x.Pos()))
			}
		}
		a := fr.addrOf(x.X, st)
		v := fr.load(a, st)
		v.GT = x.Type()
		fr.setValNamed(x, v)
		// typed loads carry their range; references found in memory were allocated earlier
		fr.assumeLoaded(fr.vals[x], st)
		fr.assumeStaticFresh(x, fr.vals[x], st)
	case token.NOT:
		fr.setVal(x, T{not(fr.val(x.X).S), "Bool", x.Type()})
	case token.SUB:
		v := fr.val(x.X)
		r := T{fmt.Sprintf("(- %s)", v.S), v.Sort, x.Type()}
		fr.setVal(x, fr.wrapInt(r, x.Type()))
	case token.XOR:
		v := fr.val(x.X)
		b := unalias(x.Type()).Underlying().(*types.Basic)
		bits, signed, bounded := intWidth(b)
		if signed || !bounded {
			// ^x == -x-1 for signed / 64-bit
			if signed {
				fr.setVal(x, T{fmt.Sprintf("(- (- %s) 1)", v.S), "Int", x.Type()})
			} else {
				fr.havocVal(x, st, "bitwise complement of 64-bit unsigned")
			}
		} else {
			fr.setVal(x, T{fmt.Sprintf("(- %s %s)", pow2(bits, -1), v.S), "Int", x.Type()})
		}
	case token.ARROW:
		fr.abstract("channel receive")
		vc.havocAll(st)
		if x.CommaOk {
			fr.tuples[x] = []T{fr.freshOf(x.Name()+"_v", x.X.Type().Underlying().(*types.Chan).Elem(), st), fr.freshOf(x.Name()+"_ok", types.Typ[types.Bool], st)}
		} else {
			fr.vals[x] = fr.freshOf(x.Name(), x.Type(), st)
		}
	default:
		bail("unsupported unary op %s", x.Op)
	}
}

func pow2(bits int, delta int64) string {
	// 2^bits + delta as literal
	v := new(bigInt).Lsh(bigOne, uint(bits))
	v.Add(v, newBig(delta))
	return v.String()
}

// wrapInt applies two's-complement wrap-around for narrow integer types.
func (fr *frame) wrapInt(v T, t types.Type) T {
	b, ok := unalias(t).Underlying().(*types.Basic)
	if !ok || v.Sort != "Int" || fr.skipWrap {
		return v
	}
	bits, signed, bounded := intWidth(b)
	if !bounded {
		if !signed && b.Info()&types.IsInteger != 0 {
			// uint/uint64: treat as mathematical but note subtraction below zero wraps — modelled mod 2^64
			return T{fmt.Sprintf("(mod %s 18446744073709551616)", v.S), "Int", t}
		}
		return v
	}
	m := pow2(bits, 0)
	if !signed {
		return T{fmt.Sprintf("(mod %s %s)", v.S, m), "Int", t}
	}
	h := pow2(bits-1, 0)
	return T{fmt.Sprintf("(- (mod (+ %s %s) %s) %s)", v.S, h, m, h), "Int", t}
}

func (fr *frame) binop(op token.Token, a, b T, rt types.Type, st *state, pos string) T {
	vc := fr.vc
	isReal := a.Sort == "Real"
	switch op {
	case token.ADD:
		if isString(a.GT) && a.Sort == "Int" && isString(rt) {
			vc.decl("strcat", "(declare-fun strcat (Int Int) Int)")
			return T{fmt.Sprintf("(strcat %s %s)", a.S, b.S), "Int", rt}
		}
		return fr.wrapInt(T{fmt.Sprintf("(+ %s %s)", a.S, b.S), a.Sort, rt}, rt)
	case token.SUB:
		return fr.wrapInt(T{fmt.Sprintf("(- %s %s)", a.S, b.S), a.Sort, rt}, rt)
	case token.MUL:
		return fr.wrapInt(T{fmt.Sprintf("(* %s %s)", a.S, b.S), a.Sort, rt}, rt)
	case token.QUO:
		if isReal {
			return T{fmt.Sprintf("(/ %s %s)", a.S, b.S), "Real", rt}
		}
		fr.obligeHere("safe.div0", "", st, fmt.Sprintf("(not (= %s 0))", b.S), pos)
		return fr.wrapInt(T{fmt.Sprintf("(go_div %s %s)", a.S, b.S), "Int", rt}, rt)
	case token.REM:
		fr.obligeHere("safe.div0", "", st, fmt.Sprintf("(not (= %s 0))", b.S), pos)
		return T{fmt.Sprintf("(go_mod %s %s)", a.S, b.S), "Int", rt}
	case token.EQL, token.NEQ:
		var s string
		if a.Sort != b.Sort {
			bail("comparison of different sorts %s %s", a.Sort, b.Sort)
		}
		s = fmt.Sprintf("(= %s %s)", a.S, b.S)
		if op == token.NEQ {
			s = not(s)
		}
		return T{s, "Bool", rt}
	case token.LSS, token.LEQ, token.GTR, token.GEQ:
		o := map[token.Token]string{token.LSS: "<", token.LEQ: "<=", token.GTR: ">", token.GEQ: ">="}[op]
		if isString(a.GT) {
			vc.decl("strlt", "(declare-fun strlt (Int Int) Bool)")
			fr.abstract("string ordering")
			switch op {
			case token.LSS:
				return T{fmt.Sprintf("(strlt %s %s)", a.S, b.S), "Bool", rt}
			case token.GTR:
				return T{fmt.Sprintf("(strlt %s %s)", b.S, a.S), "Bool", rt}
			case token.LEQ:
				return T{fmt.Sprintf("(not (strlt %s %s))", b.S, a.S), "Bool", rt}
			default:
				return T{fmt.Sprintf("(not (strlt %s %s))", a.S, b.S), "Bool", rt}
			}
		}
		return T{fmt.Sprintf("(%s %s %s)", o, a.S, b.S), "Bool", rt}
	case token.AND, token.OR, token.XOR, token.SHL, token.SHR, token.AND_NOT:
		if a.Sort == "Bool" {
			switch op {
			case token.AND:
				return T{and(a.S, b.S), "Bool", rt}
			case token.OR:
				return T{or(a.S, b.S), "Bool", rt}
			}
		}
		return fr.bitop(op, a, b, rt, st)
	}
	bail("unsupported binary op %s", op)
	return T{}
}

// bitop: bit operations over mathematical integers. Shifts by constants and masks by constants are
// expressed arithmetically (exact); everything else is an uninterpreted function with range facts.
func (fr *frame) bitop(op token.Token, a, b T, rt types.Type, st *state) T {
	vc := fr.vc
	bb, _ := unalias(rt).Underlying().(*types.Basic)
	bits, signed, bounded := 64, true, false
	if bb != nil {
		bits, signed, bounded = intWidth(bb)
	}
	_ = bounded
	constVal := func(t T) (int64, bool) {
		var v int64
		if _, err := fmt.Sscanf(t.S, "%d", &v); err == nil && fmt.Sprintf("%d", v) == t.S {
			return v, true
		}
		return 0, false
	}
	switch op {
	case token.SHL:
		if k, ok := constVal(b); ok && k >= 0 && k < 64 {
			return fr.wrapInt(T{fmt.Sprintf("(* %s %s)", a.S, pow2(int(k), 0)), "Int", rt}, rt)
		}
		vc.decl("pow2f", "(declare-fun pow2f (Int) Int)")
		vc.decl("pow2f_ax", "(assert (and (= (pow2f 0) 1) (= (pow2f 1) 2) (= (pow2f 2) 4) (= (pow2f 3) 8) (= (pow2f 4) 16) (= (pow2f 8) 256) (= (pow2f 16) 65536) (forall ((k Int)) (! (=> (>= k 0) (and (> (pow2f k) 0) (= (pow2f (+ k 1)) (* 2 (pow2f k))))) :pattern ((pow2f k))))))")
		return fr.wrapInt(T{fmt.Sprintf("(* %s (pow2f %s))", a.S, b.S), "Int", rt}, rt)
	case token.SHR:
		if k, ok := constVal(b); ok && k >= 0 && k < 64 {
			// arithmetic shift right == floor division
			return T{fmt.Sprintf("(div %s %s)", a.S, pow2(int(k), 0)), "Int", rt}
		}
		vc.decl("pow2f", "(declare-fun pow2f (Int) Int)")
		return T{fmt.Sprintf("(div %s (pow2f %s))", a.S, b.S), "Int", rt}
	case token.AND:
		// x & (2^k - 1) == x mod 2^k  (for non-negative x, and for two's complement negatives too)
		for _, pr := range [][2]T{{a, b}, {b, a}} {
			if m, ok := constVal(pr[1]); ok && m >= 0 && (m&(m+1)) == 0 {
				return T{fmt.Sprintf("(mod %s %d)", pr[0].S, m+1), "Int", rt}
			}
			// single-bit or contiguous mask: (x div 2^lo) mod 2^w * 2^lo
			if m, ok := constVal(pr[1]); ok && m > 0 {
				lo := 0
				for (m>>uint(lo))&1 == 0 {
					lo++
				}
				w := m >> uint(lo)
				if (w & (w + 1)) == 0 {
					return T{fmt.Sprintf("(* (mod (div %s %s) %d) %s)", pr[0].S, pow2(lo, 0), w+1, pow2(lo, 0)), "Int", rt}
				}
			}
		}
	}
	// uninterpreted with width-tagged name
	name := fmt.Sprintf("bit%s_%d", strings.ToLower(op.String()), bits)
	switch op {
	case token.AND:
		name = fmt.Sprintf("bitand_%d", bits)
	case token.OR:
		name = fmt.Sprintf("bitor_%d", bits)
	case token.XOR:
		name = fmt.Sprintf("bitxor_%d", bits)
	case token.AND_NOT:
		name = fmt.Sprintf("bitandnot_%d", bits)
	}
	vc.decl(name, fmt.Sprintf("(declare-fun %s (Int Int) Int)", name))
	fr.vc.assumedStd["bit operation "+name+" (uninterpreted, range facts only)"] = true
	r := T{fmt.Sprintf("(%s %s %s)", name, a.S, b.S), "Int", rt}
	if !signed {
		// result range facts for unsigned operands
		switch op {
		case token.OR:
			// a|b >= max(a,b), a|b <= a+b ; exact when the operands have disjoint bits — stated as lemma-backed fact elsewhere
			vc.assume(st.reach, fmt.Sprintf("(and (>= %s %s) (>= %s %s) (<= %s (+ %s %s)))", r.S, a.S, r.S, b.S, r.S, a.S, b.S))
		case token.AND:
			vc.assume(st.reach, fmt.Sprintf("(and (>= %s 0) (<= %s %s) (<= %s %s))", r.S, r.S, a.S, r.S, b.S))
		}
	}
	return r
}

func (fr *frame) convert(v T, from, to types.Type, st *state) T {
	vc := fr.vc
	ts := vc.sortOf(to)
	switch {
	case v.Sort == "Int" && ts == "Int":
		if isString(from) != isString(to) {
			fr.abstract("string/integer conversion")
			vc.decl("strconvI", "(declare-fun strconvI (Int) Int)")
			return T{fmt.Sprintf("(strconvI %s)", v.S), "Int", to}
		}
		if isInteger(to) && isInteger(from) {
			return fr.wrapInt(T{v.S, "Int", to}, to)
		}
		return T{v.S, "Int", to}
	case v.Sort == "Int" && ts == "Real":
		return fr.roundTo(T{fmt.Sprintf("(to_real %s)", v.S), "Real", to}, to)
	case v.Sort == "Real" && ts == "Int":
		return fr.wrapInt(T{fmt.Sprintf("(rtrunc %s)", v.S), "Int", to}, to)
	case v.Sort == "Real" && ts == "Real":
		fb, _ := unalias(from).Underlying().(*types.Basic)
		tb, _ := unalias(to).Underlying().(*types.Basic)
		if tb != nil && tb.Kind() == types.Float32 && (fb == nil || fb.Kind() != types.Float32) {
			return fr.roundTo(v, to)
		}
		return T{v.S, "Real", to}
	case v.Sort == "Slice" && ts == "Int", v.Sort == "Int" && ts == "Slice":
		fr.abstract("string/[]byte conversion")
		return fr.freshOf("conv", to, st)
	case v.Sort == ts:
		return T{v.S, ts, to}
	}
	bail("unsupported conversion %s -> %s", from, to)
	return T{}
}

// roundTo models float32 rounding as an uninterpreted idempotent function.
func (fr *frame) roundTo(v T, to types.Type) T {
	tb, _ := unalias(to).Underlying().(*types.Basic)
	if tb != nil && tb.Kind() == types.Float32 {
		fr.vc.declF32()
		return T{fmt.Sprintf("(f32 %s)", v.S), "Real", to}
	}
	return v
}

func (vc *VC) declF32() {
	vc.decl("f32", "(declare-fun f32 (Real) Real)")
	vc.decl("f32_idem", "(assert (forall ((x Real)) (! (= (f32 (f32 x)) (f32 x)) :pattern ((f32 (f32 x))))))")
	vc.decl("f32_zero", "(assert (= (f32 0.0) 0.0))")
}

func (fr *frame) doReturn(x *ssa.Return, st *state) {
	var vals []T
	for _, r := range x.Results {
		vals = append(vals, fr.val(r))
	}
	fr.rets = append(fr.rets, retInfo{st, vals, x.Block()})
}

func (fr *frame) doPanic(x *ssa.Panic, st *state) {
	if fr.fc != nil {
		for _, np := range fr.fc.NoPanic {
			env := fr.specEnv(st, nil)
			c := env.evalBool(np.E)
			fr.obligeHere("nopanic", np.Label, st, not(c), fr.pos(x.Pos()))
		}
	}
}

func (fr *frame) runDefers(st *state) {
	for i := len(fr.defers) - 1; i >= 0; i-- {
		d := fr.defers[i]
		fr.call(d.Common(), nil, st, fr.pos(d.Pos()))
	}
}

func (fr *frame) assumeLoaded(v T, st *state) {
	vc := fr.vc
	for _, c := range vc.validity(v, 0) {
		vc.assume(st.reach, c)
	}
	for _, c := range vc.allocFacts(v, st.next, 0) {
		vc.assume(st.reach, c)
	}
}

// bitInfo: static knowledge about a non-negative integer value: v < 2^max and the lowZero lowest bits are 0.
type bitInfo struct {
	ok      bool
	max     int
	lowZero int
}

func bitsOf(v ssa.Value, depth int) bitInfo {
	if depth > 12 {
		return bitInfo{}
	}
	unsignedWidth := func(t types.Type) (int, bool) {
		b, ok := unalias(t).Underlying().(*types.Basic)
		if !ok {
			return 0, false
		}
		bits, signed, _ := intWidth(b)
		if bits == 0 || signed {
			return 0, false
		}
		return bits, true
	}
	switch x := v.(type) {
	case *ssa.Const:
		if x.Value == nil {
			return bitInfo{}
		}
		iv := constant.ToInt(x.Value)
		if iv.Kind() != constant.Int || constant.Sign(iv) < 0 {
			return bitInfo{}
		}
		bi, ok := constant.Val(iv).(*big.Int)
		if !ok {
			i64, _ := constant.Int64Val(iv)
			bi = big.NewInt(i64)
		}
		if bi.Sign() == 0 {
			return bitInfo{true, 0, 64}
		}
		return bitInfo{true, bi.BitLen(), int(bi.TrailingZeroBits())}
	case *ssa.Convert:
		in := bitsOf(x.X, depth+1)
		if w, ok := unsignedWidth(x.Type()); ok {
			if in.ok && in.max <= w {
				return in
			}
			if sw, ok2 := unsignedWidth(x.X.Type()); ok2 && sw <= w {
				return bitInfo{true, sw, 0}
			}
			return bitInfo{true, w, 0}
		}
		return bitInfo{}
	case *ssa.BinOp:
		switch x.Op {
		case token.SHL:
			if c, ok := x.Y.(*ssa.Const); ok && c.Value != nil {
				k64, exact := constant.Int64Val(constant.ToInt(c.Value))
				in := bitsOf(x.X, depth+1)
				w, isU := unsignedWidth(x.Type())
				if exact && in.ok && isU && k64 >= 0 && in.max+int(k64) <= w {
					return bitInfo{true, in.max + int(k64), in.lowZero + int(k64)}
				}
			}
		case token.OR, token.XOR:
			a, b := bitsOf(x.X, depth+1), bitsOf(x.Y, depth+1)
			if a.ok && b.ok {
				return bitInfo{true, maxInt(a.max, b.max), minInt(a.lowZero, b.lowZero)}
			}
		case token.AND:
			a, b := bitsOf(x.X, depth+1), bitsOf(x.Y, depth+1)
			if a.ok && b.ok {
				return bitInfo{true, minInt(a.max, b.max), maxInt(a.lowZero, b.lowZero)}
			}
			if a.ok {
				return bitInfo{true, a.max, a.lowZero}
			}
			if b.ok {
				return bitInfo{true, b.max, b.lowZero}
			}
		}
	case *ssa.Phi:
		res := bitInfo{true, 0, 64}
		for _, e := range x.Edges {
			if e == v {
				continue
			}
			in := bitsOf(e, depth+1)
			if !in.ok {
				return bitInfo{}
			}
			res.max = maxInt(res.max, in.max)
			res.lowZero = minInt(res.lowZero, in.lowZero)
		}
		return res
	}
	if w, ok := unsignedWidth(v.Type()); ok {
		return bitInfo{true, w, 0}
	}
	return bitInfo{}
}

func fitsType(info bitInfo, t types.Type) bool {
	b, ok := unalias(t).Underlying().(*types.Basic)
	if !ok {
		return false
	}
	bits, signed, _ := intWidth(b)
	if bits == 0 {
		return false
	}
	if signed {
		return info.max <= bits-1
	}
	return info.max <= bits
}

func maxInt(a, b int) int {
	if a > b {
		return a
	}
	return b
}
func minInt(a, b int) int {
	if a < b {
		return a
	}
	return b
}

// assumeStaticFresh: the value was allocated by this call (static provenance analysis).
func (fr *frame) assumeStaticFresh(v ssa.Value, t T, st *state) {
	if fr.fi == nil || !fr.fi.fresh[v] {
		return
	}
	switch t.Sort {
	case "Slice":
		fr.vc.assume(st.reach, fmt.Sprintf("(or (>= (s_arr %s) %s) (= (s_cap %s) 0))", t.S, fr.next0, t.S))
	case "Int":
		fr.vc.assume(st.reach, fmt.Sprintf("(or (>= %s %s) (= %s 0))", t.S, fr.next0, t.S))
	}
}

// guardFieldAccess: "guardedfields <lock>: names" — taking the address of a named field of the lock's owner (every
// read and write goes through it), or copying the whole owner struct (field == "*"), needs the lock.
func (fr *frame) guardFieldAccess(at ssa.Instruction, ptr ssa.Value, owner types.Type, field string, st *state, pos string) {
	root := fr
	for root.caller != nil {
		root = root.caller
	}
	fc := root.fc
	if fc == nil || len(fc.GuardFields) == 0 {
		return
	}
	// the owner type is the struct the lock expression's base points to
	lock, err := parseSpec(fc.GuardLock)
	if err != nil {
		return
	}
	sel, ok := lock.(*ESel)
	if !ok {
		return
	}
	bid, ok := sel.X.(*EIdent)
	if !ok {
		return
	}
	bv, ok := root.params[bid.Name]
	if !ok || bv.GT == nil {
		return
	}
	bpt, ok := unalias(bv.GT).Underlying().(*types.Pointer)
	if !ok || !types.Identical(unalias(bpt.Elem()), unalias(owner)) {
		return
	}
	// every pointer to the owner type in this function (or an inlined callee) is taken to be the lock's owner: the
	// functions under such a contract handle one canvas; a second object of the type would make this conservative
	// a function that starts goroutines itself is sequential until the first "go": accesses that no "go" statement
	// can reach are not concurrent with anything (functions without "go" are the ones the workers run)
	if fr == root && !afterSomeGo(at) {
		return
	}
	hit := field == "*"
	for _, n := range fc.GuardFields {
		if n == field {
			hit = true
		}
	}
	if !hit {
		return
	}
	save := fr.fc
	held := func() string {
		e, _ := parseSpec("held(" + fc.GuardLock + ")")
		return root.specEnv(st, nil).evalBool(e)
	}()
	_ = save
	label := field
	if field == "*" {
		label = "struct-copy"
	}
	fr.vc.oblige("guard.field["+label+"]", "", root.name, st.reach, held, pos)
}

// afterSomeGo: the function has no go statement at all, or some go statement can reach this instruction.
func afterSomeGo(at ssa.Instruction) bool {
	fn := at.Parent()
	var gos []*ssa.Go
	for _, b := range fn.Blocks {
		for _, in := range b.Instrs {
			if g, ok := in.(*ssa.Go); ok {
				gos = append(gos, g)
			}
		}
	}
	if len(gos) == 0 {
		return true
	}
	for _, g := range gos {
		gb := g.Block()
		if gb == at.Block() {
			seen := false
			for _, in := range gb.Instrs {
				if in == ssa.Instruction(g) {
					seen = true
				}
				if in == at && seen {
					return true
				}
			}
		}
		// blocks reachable from the go statement's block (through at least one edge)
		visited := map[*ssa.BasicBlock]bool{}
		work := append([]*ssa.BasicBlock{}, gb.Succs...)
		for len(work) > 0 {
			b := work[len(work)-1]
			work = work[:len(work)-1]
			if visited[b] {
				continue
			}
			visited[b] = true
			if b == at.Block() {
				return true
			}
			work = append(work, b.Succs...)
		}
	}
	return false
}
