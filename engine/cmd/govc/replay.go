package main

// Replay of solver counterexamples against the real code: the model's input values are turned
// into an in-package Go test (injected with -overlay, nothing is written into the repository),
// the real function is called and the failed clause is evaluated on the concrete result.

import (
	"encoding/json"
	"fmt"
	"go/types"
	"math/big"
	"os"
	"os/exec"
	"path/filepath"
	"sort"
	"strings"

	"golang.org/x/tools/go/ssa"
)

type ReplayResult struct {
	Reproduced bool              `json:"reproduced"`
	Inputs     map[string]string `json:"inputs,omitempty"`
	Output     string            `json:"output,omitempty"`
	TestFile   string            `json:"test_source,omitempty"`
	Note       string            `json:"note,omitempty"`
}

// ---- s-expressions -----------------------------------------------------------------------------

type sx struct {
	atom string
	list []*sx
}

func (s *sx) isAtom() bool { return s.list == nil && s.atom != "" }

func parseSx(src string) ([]*sx, error) {
	pos := 0
	var parse func() (*sx, error)
	skip := func() {
		for pos < len(src) && (src[pos] == ' ' || src[pos] == '\n' || src[pos] == '\t' || src[pos] == '\r') {
			pos++
		}
	}
	parse = func() (*sx, error) {
		skip()
		if pos >= len(src) {
			return nil, fmt.Errorf("eof")
		}
		if src[pos] == '(' {
			pos++
			n := &sx{list: []*sx{}}
			for {
				skip()
				if pos >= len(src) {
					return nil, fmt.Errorf("unbalanced")
				}
				if src[pos] == ')' {
					pos++
					return n, nil
				}
				c, err := parse()
				if err != nil {
					return nil, err
				}
				n.list = append(n.list, c)
			}
		}
		if src[pos] == '|' {
			j := strings.IndexByte(src[pos+1:], '|')
			if j < 0 {
				return nil, fmt.Errorf("unbalanced |")
			}
			a := src[pos+1 : pos+1+j]
			pos += j + 2
			return &sx{atom: a}, nil
		}
		j := pos
		for j < len(src) && !strings.ContainsRune(" \n\t\r()", rune(src[j])) {
			j++
		}
		a := src[pos:j]
		pos = j
		return &sx{atom: a}, nil
	}
	var out []*sx
	for {
		skip()
		if pos >= len(src) {
			return out, nil
		}
		n, err := parse()
		if err != nil {
			return out, err
		}
		out = append(out, n)
	}
}

func sxRat(s *sx) (*big.Rat, bool) {
	if s.isAtom() {
		r, ok := new(big.Rat).SetString(strings.TrimSuffix(s.atom, "?"))
		return r, ok
	}
	if len(s.list) == 2 && s.list[0].atom == "-" {
		r, ok := sxRat(s.list[1])
		if !ok {
			return nil, false
		}
		return r.Neg(r), true
	}
	if len(s.list) == 3 && s.list[0].atom == "/" {
		a, ok1 := sxRat(s.list[1])
		b, ok2 := sxRat(s.list[2])
		if !ok1 || !ok2 || b.Sign() == 0 {
			return nil, false
		}
		return a.Quo(a, b), true
	}
	if len(s.list) == 2 && s.list[0].atom == "to_real" {
		return sxRat(s.list[1])
	}
	return nil, false
}

// modelValues extracts name -> value s-expression from a (get-value ...) answer.
func modelValues(output string) map[string]*sx {
	i := strings.Index(output, "\n")
	if i < 0 {
		return nil
	}
	nodes, _ := parseSx(output[i+1:])
	out := map[string]*sx{}
	for _, n := range nodes {
		for _, pr := range n.list {
			if len(pr.list) == 2 && pr.list[0].isAtom() {
				out[pr.list[0].atom] = pr.list[1]
			}
		}
	}
	return out
}

// ---- Go construction of input values ------------------------------------------------------------------

type goBuilder struct {
	vc      *VC
	imports map[string]string // path -> local name
	stmts   []string
	ok      bool
	why     string
	qual    types.Qualifier
	pkg     *types.Package
}

func (g *goBuilder) fail(f string, a ...any) {
	if g.ok {
		g.ok = false
		g.why = fmt.Sprintf(f, a...)
	}
}

func (g *goBuilder) typeStr(t types.Type) string {
	return types.TypeString(t, func(p *types.Package) string {
		if p == g.pkg {
			return ""
		}
		g.imports[p.Path()] = p.Name()
		return p.Name()
	})
}

// setLeaves emits statements that fill variable `v` (addressable, of Go type t) from the model value.
func (g *goBuilder) setLeaves(v string, path string, t types.Type, val *sx) {
	switch u := unalias(t).Underlying().(type) {
	case *types.Basic:
		switch {
		case u.Info()&types.IsFloat != 0:
			r, ok := sxRat(val)
			if !ok {
				g.fail("non-rational model value for %s", v)
				return
			}
			f, _ := r.Float64()
			g.stmts = append(g.stmts, fmt.Sprintf("govcSet(&%s, %q, float64(%v))", v, path, formatFloat(f)))
		case u.Info()&types.IsInteger != 0:
			r, ok := sxRat(val)
			if !ok || !r.IsInt() {
				g.fail("non-integer model value for %s", v)
				return
			}
			if !r.Num().IsInt64() {
				g.fail("integer model value out of range for %s", v)
				return
			}
			g.stmts = append(g.stmts, fmt.Sprintf("govcSet(&%s, %q, int64(%s))", v, path, r.Num().String()))
		case u.Info()&types.IsBoolean != 0:
			g.stmts = append(g.stmts, fmt.Sprintf("govcSet(&%s, %q, %s)", v, path, val.atom))
		default:
			g.fail("unsupported basic input type %s", t)
		}
	case *types.Struct:
		if val.isAtom() || len(val.list) != u.NumFields()+1 {
			if u.NumFields() == 0 {
				return
			}
			g.fail("unexpected struct model value for %s", v)
			return
		}
		for i := 0; i < u.NumFields(); i++ {
			p := path
			if p != "" {
				p += "."
			}
			g.setLeaves(v, p+fmt.Sprintf("%d", i), u.Field(i).Type(), val.list[i+1])
		}
	default:
		g.fail("input of type %s cannot be replayed yet", t)
	}
}

func formatFloat(f float64) string {
	s := fmt.Sprintf("%v", f)
	if strings.ContainsAny(s, "IN") { // Inf/NaN
		return "0"
	}
	return s
}

// ---- spec expression -> Go -------------------------------------------------------------------------------

type goTrans struct {
	g    *goBuilder
	ev   *Env
	vars map[string]string // spec variable -> Go expression
}

func (gt *goTrans) sortOf(e Expr) Sort {
	var s Sort
	func() {
		defer func() { recover() }()
		save := gt.ev.vc.capStack
		gt.ev.vc.pushCapture()
		t := gt.ev.eval(e)
		gt.ev.vc.capStack = save
		s = t.Sort
	}()
	return s
}

func (gt *goTrans) expr(e Expr) string {
	g := gt.g
	switch x := e.(type) {
	case *EBool:
		return fmt.Sprintf("%v", x.Val)
	case *ENum:
		return x.Text
	case *EStr:
		return fmt.Sprintf("%q", x.Val)
	case *EIdent:
		if v, ok := gt.vars[x.Name]; ok {
			return v
		}
		return x.Name
	case *EUnary:
		return "(" + x.Op + gt.expr(x.X) + ")"
	case *EBinary:
		a, b := gt.expr(x.X), gt.expr(x.Y)
		switch x.Op {
		case "==>":
			return fmt.Sprintf("(!(%s) || (%s))", a, b)
		case "<==>":
			return fmt.Sprintf("((%s) == (%s))", a, b)
		case "==", "!=":
			if gt.sortOf(x.X) == "Real" || gt.sortOf(x.Y) == "Real" {
				if x.Op == "==" {
					return fmt.Sprintf("govcApprox(float64(%s), float64(%s))", a, b)
				}
				return fmt.Sprintf("!govcApprox(float64(%s), float64(%s))", a, b)
			}
			if s := gt.sortOf(x.X); s != "Int" && s != "Bool" && s != "" {
				// struct comparison
				if x.Op == "==" {
					return fmt.Sprintf("govcDeepApprox(%s, %s)", a, b)
				}
				return fmt.Sprintf("!govcDeepApprox(%s, %s)", a, b)
			}
			return fmt.Sprintf("(%s %s %s)", a, x.Op, b)
		case "<=", ">=":
			if gt.sortOf(x.X) == "Real" || gt.sortOf(x.Y) == "Real" {
				return fmt.Sprintf("(float64(%s) %s float64(%s) || govcApprox(float64(%s), float64(%s)))", a, x.Op, b, a, b)
			}
		}
		return fmt.Sprintf("(%s %s %s)", a, x.Op, b)
	case *ECond:
		return fmt.Sprintf("govcIf(%s, func() any { return %s }, func() any { return %s })", gt.expr(x.C), gt.expr(x.A), gt.expr(x.B))
	case *ESel:
		if id, ok := x.X.(*EIdent); ok {
			if _, isVar := gt.vars[id.Name]; !isVar {
				if _, isSpecVar := gt.ev.tryIdent(id.Name); !isSpecVar {
					if pkg := gt.ev.findPkg(id.Name); pkg != nil {
						if pkg != g.pkg {
							g.imports[pkg.Path()] = pkg.Name()
						}
						return id.Name + "." + x.Name
					}
				}
			}
		}
		return gt.expr(x.X) + "." + x.Name
	case *ECall:
		var args []string
		for _, a := range x.Args {
			args = append(args, gt.expr(a))
		}
		if id, ok := x.Fun.(*EIdent); ok {
			switch id.Name {
			case "len", "cap", "min", "max":
				return fmt.Sprintf("%s(%s)", id.Name, strings.Join(args, ", "))
			case "abs":
				return fmt.Sprintf("math.Abs(float64(%s))", args[0])
			case "sqrt":
				return fmt.Sprintf("math.Sqrt(float64(%s))", args[0])
			case "real", "float64":
				return fmt.Sprintf("float64(%s)", args[0])
			case "int":
				return fmt.Sprintf("int(%s)", args[0])
			case "f32", "float32":
				return fmt.Sprintf("float64(float32(%s))", args[0])
			case "old", "fresh", "visits", "seen", "has", "ref", "sameSlice", "allocated":
				g.fail("clause uses %s(), which the replay harness cannot evaluate", id.Name)
				return "false"
			}
			if sf := gt.ev.findSpec(id.Name); sf != nil {
				if sf.Body == nil {
					g.fail("clause uses uninterpreted spec function %s", id.Name)
					return "false"
				}
				sub := &goTrans{g: g, ev: gt.ev, vars: map[string]string{}}
				for k, v := range gt.vars {
					sub.vars[k] = v
				}
				for i, p := range sf.Params {
					sub.vars[p.Name] = "(" + args[i] + ")"
				}
				return "(" + sub.expr(sf.Body) + ")"
			}
		}
		return fmt.Sprintf("%s(%s)", gt.expr(x.Fun), strings.Join(args, ", "))
	case *EIndex:
		return fmt.Sprintf("%s[%s]", gt.expr(x.X), gt.expr(x.I))
	case *ELet:
		sub := &goTrans{g: g, ev: gt.ev, vars: map[string]string{}}
		for k, v := range gt.vars {
			sub.vars[k] = v
		}
		sub.vars[x.Name] = "(" + gt.expr(x.Val) + ")"
		return sub.expr(x.Body)
	case *EQuant:
		g.fail("quantified clause")
		return "false"
	}
	g.fail("clause form %T not supported by the replay harness", e)
	return "false"
}

const replayHelpers = `
func govcSet(root any, path string, val any) {
	v := reflect.ValueOf(root).Elem()
	if path != "" {
		for _, p := range strings.Split(path, ".") {
			var i int
			fmt.Sscanf(p, "%d", &i)
			v = v.Field(i)
		}
	}
	v = reflect.NewAt(v.Type(), unsafe.Pointer(v.UnsafeAddr())).Elem()
	switch x := val.(type) {
	case float64:
		v.SetFloat(x)
	case int64:
		if v.Kind() >= reflect.Uint && v.Kind() <= reflect.Uintptr {
			v.SetUint(uint64(x))
		} else {
			v.SetInt(x)
		}
	case bool:
		v.SetBool(x)
	}
}

func govcApprox(a, b float64) bool {
	if a == b {
		return true
	}
	d := math.Abs(a - b)
	m := math.Max(math.Abs(a), math.Abs(b))
	return d <= 1e-9*math.Max(m, 1)
}

func govcDeepApprox(a, b any) bool {
	return govcDeepV(reflect.ValueOf(a), reflect.ValueOf(b))
}

func govcDeepV(a, b reflect.Value) bool {
	if a.Kind() != b.Kind() {
		return false
	}
	switch a.Kind() {
	case reflect.Float32, reflect.Float64:
		return govcApprox(a.Float(), b.Float())
	case reflect.Struct:
		for i := 0; i < a.NumField(); i++ {
			if !govcDeepV(a.Field(i), b.Field(i)) {
				return false
			}
		}
		return true
	case reflect.Int, reflect.Int8, reflect.Int16, reflect.Int32, reflect.Int64:
		return a.Int() == b.Int()
	case reflect.Uint, reflect.Uint8, reflect.Uint16, reflect.Uint32, reflect.Uint64:
		return a.Uint() == b.Uint()
	case reflect.Bool:
		return a.Bool() == b.Bool()
	case reflect.Array, reflect.Slice:
		if a.Len() != b.Len() {
			return false
		}
		for i := 0; i < a.Len(); i++ {
			if !govcDeepV(a.Index(i), b.Index(i)) {
				return false
			}
		}
		return true
	}
	return false
}

func govcIf(c bool, a, b func() any) any {
	if c {
		return a()
	}
	return b()
}

var _ = strings.Split
var _ = math.Abs
var _ = unsafe.Pointer(nil)
var _ = reflect.ValueOf
`

func tryReplay(o *options, p *Program, u *UnitResult, ob *Obligation) *ReplayResult {
	if u.Kind != "func" || (ob.Kind != "ensures" && !strings.HasPrefix(ob.Kind, "safe.")) || u.fn == nil {
		return &ReplayResult{Note: "replay is implemented for ensures/safe obligations of named functions"}
	}
	fn := u.fn
	if fn.Parent() != nil || fn.Object() == nil {
		return &ReplayResult{Note: "closures cannot be called from a test"}
	}
	mv := modelValues(ob.Model)
	if mv == nil {
		return &ReplayResult{Note: "solver returned no model values"}
	}
	pkg := pkgOf(fn)
	g := &goBuilder{vc: u.VC, imports: map[string]string{}, ok: true, pkg: pkg}
	res := &ReplayResult{Inputs: map[string]string{}}
	var argNames []string
	for i, prm := range fn.Params {
		cname := u.paramConst[prm.Name()]
		val, ok := mv[cname]
		if !ok {
			return &ReplayResult{Note: "model has no value for parameter " + prm.Name()}
		}
		gv := fmt.Sprintf("in%d", i)
		g.stmts = append(g.stmts, fmt.Sprintf("var %s %s", gv, g.typeStr(prm.Type())))
		g.setLeaves(gv, "", prm.Type(), val)
		argNames = append(argNames, gv)
		res.Inputs[prm.Name()] = sxString(val)
	}
	if !g.ok {
		res.Note = g.why
		return res
	}
	// call
	var call string
	nres := fn.Signature.Results().Len()
	var resVars []string
	for i := 0; i < nres; i++ {
		resVars = append(resVars, fmt.Sprintf("out%d", i))
	}
	if fn.Signature.Recv() != nil {
		call = fmt.Sprintf("%s.%s(%s)", argNames[0], fn.Name(), strings.Join(argNames[1:], ", "))
	} else {
		name := fn.Name()
		if o := fn.Origin(); o != nil {
			name = o.Name()
		}
		call = fmt.Sprintf("%s(%s)", name, strings.Join(argNames, ", "))
	}
	body := strings.Join(g.stmts, "\n\t")
	if nres > 0 {
		body += "\n\t" + strings.Join(resVars, ", ") + " := " + call
	} else {
		body += "\n\t" + call
	}
	check := "true"
	if ob.Kind == "ensures" && ob.clause != nil {
		vars := map[string]string{}
		for i, prm := range fn.Params {
			vars[prm.Name()] = argNames[i]
		}
		names := u.fc.Returns
		if len(names) == 0 {
			if nres == 1 {
				names = []string{"result"}
			}
			for i := 0; i < nres; i++ {
				vars[fmt.Sprintf("result%d", i)] = resVars[i]
			}
		}
		for i, n := range names {
			if i < nres {
				vars[n] = resVars[i]
			}
		}
		ev := &Env{vc: u.VC, pkg: pkg, vars: map[string]T{}, st: u.entry, old: u.entry, next0: "0", calleeScope: true}
		for k, v := range u.specVars {
			ev.vars[k] = v
		}
		gt := &goTrans{g: g, ev: ev, vars: vars}
		check = gt.expr(ob.clause.E)
		if !g.ok {
			res.Note = g.why
			return res
		}
	}
	var imps []string
	for path, name := range g.imports {
		imps = append(imps, fmt.Sprintf("\t%s %q", name, path))
	}
	sort.Strings(imps)
	for i := range resVars {
		body += fmt.Sprintf("\n\t_ = out%d", i)
	}
	src := fmt.Sprintf(`package %s

import (
	"fmt"
	"math"
	"reflect"
	"strings"
	"testing"
	"unsafe"
%s
)

func TestGovcReplay(t *testing.T) {
	defer func() {
		if r := recover(); r != nil {
			fmt.Printf("GOVC-REPLAY: panic: %%v\n", r)
		}
	}()
	%s
	holds := %s
	fmt.Printf("GOVC-REPLAY: clause holds = %%v\n", holds)
	fmt.Printf("GOVC-REPLAY: outputs = %%+v\n", []any{%s})
}
%s`, pkg.Name(), strings.Join(imps, "\n"), body, check, strings.Join(resVars, ", "), replayHelpers)
	res.TestFile = src
	// run it through an overlay
	tmp, err := os.MkdirTemp("", "govc-replay-")
	if err != nil {
		res.Note = err.Error()
		return res
	}
	defer os.RemoveAll(tmp)
	testPath := filepath.Join(tmp, "replay_test.go")
	os.WriteFile(testPath, []byte(src), 0o644)
	pkgDir := filepath.Dir(p.Fset.Position(fn.Pos()).Filename)
	ov := map[string]map[string]string{"Replace": {filepath.Join(pkgDir, "zz_govc_replay_test.go"): testPath}}
	ovData, _ := json.Marshal(ov)
	ovPath := filepath.Join(tmp, "ov.json")
	os.WriteFile(ovPath, ovData, 0o644)
	cmd := exec.Command("go", "test", "-overlay", ovPath, "-vet=off", "-v", "-count=1", "-timeout", "60s", "-run", "^TestGovcReplay$", ".")
	cmd.Dir = pkgDir
	cmd.Env = append(os.Environ(), "GOFLAGS=-mod=mod", "GOPROXY=off", "GOSUMDB=off", "GOTOOLCHAIN=local")
	out, _ := cmd.CombinedOutput()
	res.Output = firstLines(string(out), 30)
	switch {
	case strings.Contains(string(out), "GOVC-REPLAY: clause holds = false"):
		res.Reproduced = true
	case strings.Contains(string(out), "GOVC-REPLAY: panic:") && strings.HasPrefix(ob.Kind, "safe."):
		res.Reproduced = true
	case strings.Contains(string(out), "GOVC-REPLAY: panic:"):
		res.Reproduced = true
		res.Note = "the real code panics on the model input"
	case strings.Contains(string(out), "GOVC-REPLAY: clause holds = true"):
		res.Note = "the model input does not violate the clause on the real code (abstraction gap: reals vs floats, or havocked value)"
	default:
		res.Note = "replay test did not run to completion"
	}
	return res
}

func sxString(s *sx) string {
	if s.isAtom() {
		return s.atom
	}
	var parts []string
	for _, c := range s.list {
		parts = append(parts, sxString(c))
	}
	return "(" + strings.Join(parts, " ") + ")"
}

var _ *ssa.Function
