#!/usr/bin/env python3
"""Must-fail corpus: every patch under mutants/<prop>/*.diff (hand-written) and seeded/<id>/patch.diff
(from independent sub-agents) must make the named property's check report a VIOLATION, and the
unpatched tree must stay green.  Runs on a scratch worktree outside /repo and /verif (removed afterwards).
usage: run.py [prop ...] [--seeded] [--keep]"""
import json, os, subprocess, sys, tempfile, shutil, glob

VERIF = "/verif"
REPO = "/repo"

def sh(cmd, **kw):
    return subprocess.run(cmd, shell=True, capture_output=True, text=True, **kw)

def main():
    args = [a for a in sys.argv[1:] if not a.startswith("--")]
    cases = []
    for d in sorted(glob.glob(f"{VERIF}/selftest/mutants/*/*.diff")):
        prop = os.path.basename(os.path.dirname(d))
        cases.append((prop, os.path.basename(d)[:-5], d))
    for m in sorted(glob.glob(f"{VERIF}/seeded/*/meta.json")):
        meta = json.load(open(m))
        cases.append((meta["property"], "seeded/" + os.path.basename(os.path.dirname(m)), os.path.join(os.path.dirname(m), "patch.diff")))
    if args:
        cases = [c for c in cases if c[0] in args or c[1] in args]
    wt = tempfile.mkdtemp(prefix="govc-selftest-")
    os.rmdir(wt)
    r = sh(f"git -C {REPO} worktree add --detach {wt} HEAD")
    if r.returncode != 0:
        print("cannot create worktree:", r.stderr); return 2
    bad = 0
    try:
        # carry uncommitted changes of /repo (contracts being edited) into the scratch tree
        diff = sh(f"git -C {REPO} diff HEAD").stdout
        if diff.strip():
            subprocess.run(f"git -C {wt} apply", shell=True, input=diff, text=True)
        for f in sh(f"git -C {REPO} ls-files --others --exclude-standard").stdout.split():
            os.makedirs(os.path.dirname(os.path.join(wt, f)), exist_ok=True)
            shutil.copy(os.path.join(REPO, f), os.path.join(wt, f))
        base = sh(f"git -C {wt} diff HEAD").stdout
        for prop, name, patch in cases:
            r = sh(f"git -C {wt} apply --whitespace=nowarn {patch}")
            if r.returncode != 0:
                print(f"SKIP  {prop} {name}: patch does not apply: {r.stderr.strip()[:200]}")
                bad += 1
                continue
            r = sh(f"{VERIF}/bin/govc -repo {wt} -verif {VERIF} -prop {prop} -noevidence")
            viol = [l for l in r.stdout.splitlines() if l.startswith("VIOLATION")]
            und = [l for l in r.stdout.splitlines() if l.startswith("UNDECIDED")]
            if r.returncode == 1 and viol:
                obl = ", ".join(sorted(set(l.split("obligation=")[1].split()[0] for l in viol)))[:300]
                print(f"CAUGHT {prop} {name}: {obl}")
            else:
                bad += 1
                print(f"MISSED {prop} {name}: exit={r.returncode} {und[:2]}")
            sh(f"git -C {wt} apply -R --whitespace=nowarn {patch}")
    finally:
        sh(f"git -C {REPO} worktree remove --force {wt}")
    print(f"selftest: {len(cases)} cases, {bad} missed/skipped")
    return 1 if bad else 0

sys.exit(main())
