#!/bin/sh
# usage: mkmut.sh <prop> <name> <file> <sed-expr> [<sed-expr>...]   (creates selftest/mutants/<prop>/<name>.diff from /repo, leaves /repo unchanged)
set -e
prop=$1; name=$2; file=$3; shift 3
cd /repo
cp "$file" /tmp/mkmut.bak
for e in "$@"; do sed -i "$e" "$file"; done
mkdir -p /verif/selftest/mutants/$prop
git diff -- "$file" > /verif/selftest/mutants/$prop/$name.diff
cp /tmp/mkmut.bak "$file"; rm -f /tmp/mkmut.bak
if [ ! -s /verif/selftest/mutants/$prop/$name.diff ]; then echo "EMPTY mutant $name"; rm /verif/selftest/mutants/$prop/$name.diff; exit 1; fi
